package harness

import (
	"encoding/json"
	"fmt"
	"math"
	"reflect"
	"strconv"
	"strings"
	"testing"

	"gitee.com/xuesongtao/protoc-go-valid/valid"
	"pgregory.net/rapid"

	"verifharness/desc"
	"verifharness/ev"
	"verifharness/model"
)

// ---- C01: size/comparison rules judge by the documented measure with exact boundaries ----

func sizeRuleText(key string, lo, hi int64) string {
	if key == "to" || key == "oto" {
		return fmt.Sprintf("%s=%d~%d", key, lo, hi)
	}
	return fmt.Sprintf("%s=%d", key, lo)
}

// refViolated is the exact-arithmetic oracle on plain integers (used by the
// enumerated 8-bit part; the random part goes through model.SizeVerdict).
func refViolated(key string, m, lo, hi int64) bool {
	switch key {
	case "to":
		return m < lo || m > hi
	case "oto":
		return m <= lo || m >= hi
	case "ge":
		return m < lo
	case "le":
		return m > lo
	case "gt":
		return m <= lo
	case "lt":
		return m >= lo
	case "eq":
		return m != lo
	case "noeq":
		return m == lo
	}
	panic(key)
}

type c01Enum struct {
	Kind string `json:"kind"`
	Val  int64  `json:"val"`
	Rule string `json:"rule"`
}

func checkC01Enum(c c01Enum) string {
	var src interface{}
	if c.Kind == "int8" {
		src = int8(c.Val)
	} else {
		src = uint8(c.Val)
	}
	key, arg, _ := model.ParseItem(c.Rule)
	vd, _, _ := model.SizeVerdict(key, arg, reflect.ValueOf(src))
	var err error
	if p := ev.Guard(func() { err = valid.Var(src, c.Rule) }); p != nil {
		return fmt.Sprintf("panic: %v", p)
	}
	if (err != nil) != (vd == model.Violated) {
		return fmt.Sprintf("Var(%s(%d), %q): error=%v, exact comparison says %v", c.Kind, c.Val, c.Rule, err, vd)
	}
	return ""
}

// enumC01 enumerates all non-zero 8-bit values x all bounds in a window.
func enumC01(t *testing.T) {
	window := int64(ev.Pick(40, 260))
	var bset []int64
	for _, c := range []int64{-128, 0, 127, 255} {
		for d := int64(-2); d <= 2; d++ {
			bset = append(bset, c+d)
		}
	}
	bset = append(bset, 256, 257, -130, 129)
	if !ev.Thorough() {
		bset = []int64{-129, -128, -1, 0, 1, 2, 126, 127, 128, 254, 255, 256}
	}
	shard, nshard := ev.Shard()
	var count, nt int64
	idx := 0
	run := func(kind string, v int64, key string, lo, hi int64) {
		idx++
		if idx%nshard != shard {
			return
		}
		c := c01Enum{Kind: kind, Val: v, Rule: sizeRuleText(key, lo, hi)}
		count++
		near := func(b int64) bool { return v-b >= -1 && v-b <= 1 }
		if near(lo) || ((key == "to" || key == "oto") && (near(hi) || lo > hi)) {
			nt++
		}
		if msg := checkC01Enum(c); msg != "" {
			ev.Fail(t, "C01", "enum8", c, "%s", msg)
		}
	}
	for _, kind := range []string{"int8", "uint8"} {
		lo8, hi8 := int64(-128), int64(127)
		if kind == "uint8" {
			lo8, hi8 = 0, 255
		}
		for v := lo8; v <= hi8; v++ {
			if v == 0 {
				continue
			}
			for _, key := range []string{"ge", "le", "gt", "lt", "eq", "noeq"} {
				for b := -window; b <= window; b++ {
					run(kind, v, key, b, 0)
				}
				if !ev.Thorough() { // quick: the window around the far end of the kind's range as well
					for b := hi8 - 3; b <= hi8+3; b++ {
						run(kind, v, key, b, 0)
					}
					for b := lo8 - 3; b <= lo8+3; b++ {
						run(kind, v, key, b, 0)
					}
				}
			}
			for _, key := range []string{"to", "oto"} {
				for _, lo := range bset {
					for _, hi := range bset {
						run(kind, v, key, lo, hi)
					}
				}
			}
		}
	}
	ev.Exhaustive(fmt.Sprintf("every non-zero int8 and uint8 value x ge/le/gt/lt/eq/noeq x every bound in [-%d,%d] and x to/oto x every (lo,hi) pair of a %d-value boundary set (min>max included), through Var", window, window, len(bset)),
		int64(idx), fmt.Sprintf("this shard ran %d (%d/%d)", count, shard, nshard))
	ev.ExtraAdd("enumerated_cases", count)
	ev.ExtraAdd("enumerated_nontrivial_distinct_by_construction", nt)
}

var c01Kinds = []string{"string", "int8", "int16", "int32", "int64", "int", "uint8", "uint16", "uint32", "uint64", "uint", "float32", "float64", "slice:int", "slice:string", "slice:struct", "slice:uint8", "slice:float64", "slice:bool"}

var hostileBounds = []int64{0, 1, -1, 2, 3, 7, -7, 127, 128, -128, -129, 255, 256, 32767, 32768, -32768, 65535, 65536, 1<<31 - 1, 1 << 31, -(1 << 31), 1<<32 - 1, 1 << 32,
	1 << 53, 1<<53 + 1, -(1 << 53), math.MaxInt64, math.MaxInt64 - 1, math.MinInt64, math.MinInt64 + 1}

func kindRange(kind string) (lo, hi int64, unsigned bool) {
	switch kind {
	case "int8":
		return -128, 127, false
	case "int16":
		return -32768, 32767, false
	case "int32":
		return -(1 << 31), 1<<31 - 1, false
	case "int64", "int":
		return math.MinInt64, math.MaxInt64, false
	case "uint8":
		return 0, 255, true
	case "uint16":
		return 0, 65535, true
	case "uint32":
		return 0, 1<<32 - 1, true
	}
	return 0, math.MaxInt64, true // uint, uint64 (upper part drawn separately)
}

var runeClasses = [][]rune{[]rune("abcxyz019"), []rune("éñß"), []rune("测试验证"), []rune("😀🎉"), {'a', 0x301}, []rune(" \t\u3000\u00a0")} // white space counts as characters, also at the ends

func strOfRunes(t *rapid.T, n int) string {
	var b strings.Builder
	for i := 0; i < n; i++ {
		cl := rapid.SampledFrom(runeClasses).Draw(t, "runeClass")
		b.WriteRune(rapid.SampledFrom(cl).Draw(t, "rune"))
	}
	return b.String()
}

// genC01Case draws a (rule, kind, bounds, value, carrier) tuple with the value
// placed relative to the bound.
func genC01Case(t *rapid.T) (*ScalarCase, bool) {
	kind := rapid.SampledFrom(c01Kinds).Draw(t, "kind")
	key := rapid.SampledFrom(model.SizeRules).Draw(t, "rule")
	isLen := kind == "string" || strings.HasPrefix(kind, "slice")
	isFloat := strings.HasPrefix(kind, "float")
	// bound
	var b int64
	bigLen := false
	switch {
	case kind == "string" && rapid.IntRange(0, 79).Draw(t, "bigLen") == 41:
		// lengths around and beyond 64 KiB (in three-byte characters the byte count passes it at 21846)
		b, bigLen = int64(rapid.SampledFrom([]int{21845, 21846, 22000, 30000, 65535, 65536, 65537}).Draw(t, "bigBound")), true
	case isLen:
		b = int64(rapid.IntRange(-2, 12).Draw(t, "lenBound"))
	case rapid.IntRange(0, 2).Draw(t, "smallBound") == 0:
		b = int64(rapid.IntRange(-10, 10).Draw(t, "bound"))
	default:
		b = rapid.SampledFrom(hostileBounds).Draw(t, "bound")
	}
	if isFloat && (b > 1<<53 || b < -(1<<53)) {
		ev.Excluded("float-bound-beyond-2^53")
		b = int64(rapid.IntRange(-10, 10).Draw(t, "fbound"))
	}
	lo, hi := b, b
	minGtMax := false
	if key == "to" || key == "oto" {
		w := int64(rapid.SampledFrom([]int{0, 1, 2, 3, 10, -1, -3}).Draw(t, "width"))
		hi = addSat(lo, w)
		minGtMax = lo > hi
		if isFloat && (hi > 1<<53 || hi < -(1<<53)) {
			hi = lo
		}
	}
	// value relative to a bound
	target := lo
	if rapid.Bool().Draw(t, "aroundHi") {
		target = hi
	}
	delta := int64(rapid.SampledFrom([]int{-1, 0, 1, -1, 0, 1, -2, 2, 5}).Draw(t, "delta"))
	near := delta >= -1 && delta <= 1
	c := &ScalarCase{}
	switch {
	case kind == "string":
		n := addSat(target, delta)
		if n < 1 {
			n, near = 1, target <= 2
		}
		if n > 40 && !bigLen {
			n = 40
			near = false
		}
		switch {
		case (key == "eq" || key == "noeq") && !bigLen && rapid.IntRange(0, 5).Draw(t, "boundAsText") == 3:
			// the value READS like the bound (a status code sent as text): it is measured by its length all the same
			c.T, c.Val = desc.Scalar("string"), desc.Str(strconv.FormatInt(b, 10))
			near = true
		case !bigLen && n >= 3 && rapid.IntRange(0, 11).Draw(t, "invalidRun") == 7:
			// a run of bytes that are no valid UTF-8: every such byte counts as one character (Go's reading of a string)
			run := rapid.SampledFrom([]string{"\xf0\x9f\x98", "\xff\xfe", "\x80\x80\x80", "\xed\xa0\x80"}).Draw(t, "run")
			if len(run) > int(n) {
				run = run[:n]
			}
			c.T, c.Val = desc.Scalar("string"), desc.Str(strOfRunes(t, int(n)-len(run))+run)
		case bigLen:
			c.T, c.Val = desc.Scalar("string"), desc.Str(strings.Repeat(rapid.SampledFrom([]string{"长", "a", "é"}).Draw(t, "bigRune"), int(n)))
		default:
			c.T, c.Val = desc.Scalar("string"), desc.Str(strOfRunes(t, int(n)))
		}
	case strings.HasPrefix(kind, "slice"):
		n := addSat(target, delta)
		if n < 1 {
			n, near = 1, target <= 2
		}
		if n > 20 {
			n = 20
			near = false
		}
		ek := strings.TrimPrefix(kind, "slice:")
		var et desc.T
		var ev1 desc.V
		switch ek {
		case "int":
			et, ev1 = desc.Scalar("int"), desc.V{I: 3}
		case "string":
			et, ev1 = desc.Scalar("string"), desc.Str("x")
		default:
			et, ev1 = desc.T{K: "struct", Fields: []desc.F{{Name: "A", T: desc.Scalar("int")}}}, desc.V{E: []desc.V{{I: 1}}}
		}
		switch ek {
		case "uint8":
			et, ev1 = desc.Scalar("uint8"), desc.V{U: 65}
		case "float64":
			et, ev1 = desc.Scalar("float64"), desc.V{F: 1.5}
		case "bool":
			et, ev1 = desc.Scalar("bool"), desc.V{B: true}
		}
		c.T = desc.Slice(et)
		for i := int64(0); i < n; i++ {
			c.Val.E = append(c.Val.E, ev1)
		}
		if ek == "uint8" && n >= 2 {
			// a byte slice holding multi-byte UTF-8 text: its measure is still the number of elements
			b := []byte(strings.Repeat("你好é😀", 6))[:n]
			for i := range c.Val.E {
				c.Val.E[i] = desc.V{U: uint64(b[i])}
			}
		}
	case isFloat:
		f := float64(target)
		switch rapid.IntRange(0, 5).Draw(t, "fmode") {
		case 0:
			f = math.Nextafter(f, math.Inf(1))
			near = true
		case 1:
			f = math.Nextafter(f, math.Inf(-1))
			near = true
		case 2:
			f += 0.5
			near = true
		case 3:
			f -= 0.5
			near = true
		default:
			f += float64(delta)
		}
		if kind == "float32" {
			f = float64(float32(f))
		}
		if f == 0 {
			f = 1
			near = target >= 0 && target <= 2
		}
		c.T, c.Val = desc.Scalar(kind), desc.V{F: f}
	default:
		klo, khi, unsigned := kindRange(kind)
		if unsigned {
			var u uint64
			switch {
			case (kind == "uint64" || kind == "uint") && rapid.IntRange(0, 5).Draw(t, "bigU") == 0:
				u = rapid.SampledFrom([]uint64{math.MaxUint64, math.MaxUint64 - 1, 1 << 63, 1<<63 + 1, 1<<63 - 1}).Draw(t, "u")
				near = target >= math.MaxInt64-1
			default:
				x := addSat(target, delta)
				if x < klo || x > khi {
					near = false
					if x < klo {
						x = klo + int64(rapid.IntRange(1, 3).Draw(t, "clampLo"))
						near = target-x >= -1 && target-x <= 1
					} else {
						x = khi - int64(rapid.IntRange(0, 2).Draw(t, "clampHi"))
						near = target-x >= -1 && target-x <= 1
					}
				}
				if x == 0 {
					x = 1
					near = target >= 0 && target <= 2
				}
				u = uint64(x)
			}
			c.T, c.Val = desc.Scalar(kind), desc.V{U: u}
		} else {
			x := addSat(target, delta)
			if x < klo {
				x = klo + int64(rapid.IntRange(0, 2).Draw(t, "clampLo"))
				near = target-x >= -1 && target-x <= 1
			}
			if x > khi {
				x = khi - int64(rapid.IntRange(0, 2).Draw(t, "clampHi"))
				near = target-x >= -1 && target-x <= 1
			}
			if x == 0 {
				x = -1
				near = target >= -2 && target <= 0
			}
			c.T, c.Val = desc.Scalar(kind), desc.V{I: x}
		}
	}
	msg := "|m1"
	if rapid.IntRange(0, 3).Draw(t, "noMsg") == 0 {
		msg = ""
	}
	rt := sizeRuleText(key, lo, hi)
	if rapid.IntRange(0, 9).Draw(t, "zeroPad") == 0 {
		// decimal numerals with leading zeros (and an explicit plus sign) denote the same bound
		pad := func(x int64) string {
			if x < 0 {
				if x == math.MinInt64 {
					return strconv.FormatInt(x, 10)
				}
				return "-0" + strconv.FormatInt(-x, 10)
			}
			return rapid.SampledFrom([]string{"0", "00", "+", "+0"}).Draw(t, "padWith") + strconv.FormatInt(x, 10)
		}
		if key == "to" || key == "oto" {
			rt = key + "=" + pad(lo) + "~" + pad(hi)
		} else {
			rt = key + "=" + pad(lo)
		}
	}
	alias := rapid.IntRange(0, 9).Draw(t, "alias") == 6
	if alias {
		// the library's exported rule function (valid.Gt ...) given for this call under another name
		rt = "x" + rt
		c.CallFns = []string{"x" + key}
	}
	c.Rules = []string{rt + msg}
	if rapid.IntRange(0, 5).Draw(t, "quotedNeighbour") == 2 {
		// a satisfied rule with a quoted message in front of the size rule (the value is never empty here): the
		// list is split quote-aware, a quote is closed by the next quote - also right after a back slash
		c.Rules = append([]string{rapid.SampledFrom([]string{`required|'need, really\'`, `required|'a,b'`, `noeq=77777|'n,b\'`, `required|'C:\'`}).Draw(t, "neighbourRule")}, c.Rules...)
	}
	c.Carrier = rapid.SampledFrom(Carriers).Draw(t, "carrier")
	for i := 0; i < 8 && !c.carrierOK(); i++ {
		c.Carrier = Carriers[(indexOf(Carriers, c.Carrier)+1)%len(Carriers)]
	}
	nt := near || minGtMax || (kind != "string" && kind != "int32")
	finishScalar(t, c)
	return c, nt
}

func indexOf(a []string, s string) int {
	for i, x := range a {
		if x == s {
			return i
		}
	}
	return 0
}

// checkScalarVerdict: the verdict observed through the carrier (is there a
// clause for the rule instance?) must equal the oracle's.
func checkScalarVerdict(c *ScalarCase) (msg string, skipped string, res *model.Result) {
	res = c.expect()
	if len(res.Excluded) > 0 {
		return "", res.Excluded[0], res
	}
	errText, isNil, panicked := c.run()
	if panicked != nil {
		return fmt.Sprintf("panic: %v", panicked), "", res
	}
	m := model.Compare(res, errText, isNil, true)
	if m != "" && c.ifaceKnown() {
		return "", "", res
	}
	return m, "", res
}

func TestC01(t *testing.T) {
	t.Run("enum8", enumC01)
	t.Run("random", func(t *testing.T) {
		rapid.Check(t, func(t *rapid.T) {
			c, nt := genC01Case(t)
			msg, skipped, res := checkScalarVerdict(c)
			if skipped != "" {
				ev.Excluded(skipped)
				return
			}
			ev.Class("kind=" + kindLabel(c.T))
			ev.Class("carrier=" + c.Carrier)
			key, _, _ := model.ParseItem(c.Rules[0])
			ev.Class("rule=" + key)
			if res.Violations > 0 {
				ev.Class("verdict=violated")
			} else {
				ev.Class("verdict=ok")
			}
			ev.Case(c.key(), nt, func() interface{} { return c })
			if msg != "" {
				ev.Fail(t, "C01", "random", c, "%s", msg)
			}
		})
	})
}

func kindLabel(t desc.T) string {
	if t.Elem != nil {
		return t.K + ":" + t.Elem.K
	}
	return t.K
}

func replayScalarCases(t *testing.T, prop string, check func(c *ScalarCase) string) {
	for _, f := range ev.ReplayFiles() {
		rp, err := ev.LoadReplay(f)
		if err != nil {
			t.Fatalf("replay %s: %v", f, err)
		}
		ev.Class("replayed")
		if rp.Sub == "enum8" {
			var c c01Enum
			if err := json.Unmarshal(rp.Case, &c); err != nil {
				t.Fatalf("replay %s: %v", f, err)
			}
			if msg := checkC01Enum(c); msg != "" {
				ev.Fail(t, prop, "enum8", c, "%s (replay %s)", msg, f)
			}
			continue
		}
		var c ScalarCase
		if err := json.Unmarshal(rp.Case, &c); err != nil {
			t.Fatalf("replay %s: %v", f, err)
		}
		if msg := check(&c); msg != "" {
			ev.Fail(t, prop, rp.Sub, &c, "%s (replay %s)", msg, f)
		}
	}
}

func TestC01Replay(t *testing.T) {
	replayScalarCases(t, "C01", func(c *ScalarCase) string {
		msg, _, _ := checkScalarVerdict(c)
		return msg
	})
}

var _ = strconv.Itoa
