package harness

import (
	"encoding/json"
	"fmt"
	"strings"
	"testing"

	"pgregory.net/rapid"

	"verifharness/desc"
	"verifharness/ev"
	"verifharness/model"
)

// ---- C02: every violated rule is reported exactly once, in order; nil iff none ----

// addGroups attaches either/botheq rules to scalar fields of one struct type.
func addGroups(t *rapid.T, ty *desc.T, tag string) {
	if len(ty.Fields) < 2 || rapid.IntRange(0, 2).Draw(t, "withGroups") != 0 {
		return
	}
	ngroups := rapid.IntRange(1, 2).Draw(t, "nGroups")
	for g := 1; g <= ngroups; g++ {
		kind := rapid.SampledFrom([]string{"either", "botheq"}).Draw(t, "groupKind")
		// members: fields of one scalar kind (botheq compares members of one type)
		id := rapid.IntRange(1, 2).Draw(t, "groupID") // ids may coincide across kinds: still two groups
		var first string
		members := 0
		for i := range ty.Fields {
			f := &ty.Fields[i]
			if f.T.K == "struct" || f.T.Elem != nil || f.T.K == "time" || !desc.Exported(f.Name) {
				continue
			}
			if first == "" {
				first = f.T.K
			}
			if f.T.K != first || rapid.IntRange(0, 2).Draw(t, "member") == 0 {
				continue
			}
			if f.Tags == nil {
				f.Tags = map[string]string{}
			}
			item := fmt.Sprintf("%s=%d", kind, id)
			if strings.Contains(","+f.Tags[tag]+",", ","+item+",") {
				continue
			}
			if f.Tags[tag] == "" {
				f.Tags[tag] = item
			} else if rapid.Bool().Draw(t, "groupFirst") {
				f.Tags[tag] = item + "," + f.Tags[tag]
			} else {
				f.Tags[tag] += "," + item
			}
			members++
		}
		_ = members
	}
}

func walkTypes(ty *desc.T, fn func(*desc.T)) {
	if ty == nil {
		return
	}
	if ty.K == "struct" {
		fn(ty)
		for i := range ty.Fields {
			walkTypes(&ty.Fields[i].T, fn)
		}
	}
	walkTypes(ty.Elem, fn)
}

func genC02Case(t *rapid.T) *StructCase {
	if drawManyTypes(t) {
		ev.Class("one call over more than 512 distinct struct types")
		c := manyTypesCase(t)
		c.Entry = "Struct"
		return c
	}
	if rapid.IntRange(0, 3).Draw(t, "namedMode") == 0 {
		// named library types: top-level slices / arrays / maps with readable labels, per-type rule sets
		c := genNamedCase(t, namedOpts{roots: []string{"Mid", "Top", "Leaf", "Tree", "Alias"}, marks: []string{"required", "exist", "-", "required|need"},
			msgMode: rapid.SampledFrom([]int{0, 1, 2, 3}).Draw(t, "msgs"), maxDepth: 3, density: 7, extra: []string{"nosuch", "to=5", "gcustom1"}, unscoped: false})
		c.pickEntry(rapid.IntRange(0, 7).Draw(t, "entry"))
		return c
	}
	mg := &msgGen{mode: rapid.SampledFrom([]int{0, 1, 2, 3, 3}).Draw(t, "msgs")}
	g := &structGen{t: t, mg: mg, tag: "valid", maxDepth: rapid.IntRange(0, 3).Draw(t, "maxDepth"), maxField: rapid.IntRange(1, 8).Draw(t, "maxField"),
		containerMarks: []string{"required", "exist", "required", "exist", "-", "required|need"},
		scalarKinds:    cheapScalarKinds, unexported: true, withTime: true}
	if rapid.IntRange(0, 5).Draw(t, "altTag") == 0 {
		g.tag = "check"
	}
	g.leafRules = func(kind string, v desc.V) string { return genRuleItems(t, kind, v, mg, 5, true) }
	ty, _ := g.genStruct(0)
	walkTypes(&ty, func(st *desc.T) { addGroups(t, st, g.tag) })
	c := &StructCase{}
	if g.tag != "valid" {
		c.Tag = g.tag
	}
	// top level: struct, pointer(s) to it, slice / array / map of structs or pointers
	switch rapid.IntRange(0, 9).Draw(t, "top") {
	case 0:
		c.Root, c.Val = ty, g.genValueFor(ty, 0)
	case 1:
		c.Root = desc.Ptr(desc.Ptr(ty))
		c.Val = desc.V{E: []desc.V{{E: []desc.V{g.genValueFor(ty, 0)}}}}
	case 2, 3:
		// (a top-level slice of an *anonymous* struct type is labelled with the whole
		// type literal, which contains quotes and "; ": top-level slices and arrays are
		// generated over the named library types instead, see genNamedCase)
		c.Root = desc.Map(desc.Scalar("int"), ty)
		c.Val = g.genValueFor(c.Root, 0)
	case 4:
		c.Root = desc.Map(desc.Scalar("string"), desc.Ptr(ty))
		c.Val = g.genValueFor(c.Root, 0)
	default:
		c.Root = desc.Ptr(ty)
		c.Val = desc.V{E: []desc.V{g.genValueFor(ty, 0)}}
	}
	c.pickEntry(rapid.IntRange(0, 7).Draw(t, "entry"))
	return c
}

// checkC02 is the oracle: the complete clause list (multiset, order, framing,
// echo, nil-iff-none) must equal the reference walker's prediction.
func checkC02(c *StructCase) (msg string, res *model.Result, skipped string) {
	res, errText, isNil, panicked := runStructCase(c)
	if panicked != nil {
		return fmt.Sprintf("panic: %v", panicked), res, ""
	}
	if len(res.Excluded) > 0 {
		return "", res, res.Excluded[0]
	}
	return model.Compare(res, errText, isNil, true), res, ""
}

func c02Key(c *StructCase) string {
	b, _ := json.Marshal(c)
	return string(b)
}

// propC02 is the property; TestC02 drives it with rapid's random generator, FuzzC02Rapid with the coverage-guided
// native fuzzer (thorough tier: rapid.MakeFuzz turns the fuzzer's bytes into the draws).
func propC02(t *rapid.T) {
	c := genC02Case(t)
	takeGenFlags()
	if rapid.IntRange(0, 5).Draw(t, "smallCache") == 3 {
		c.Cache = rapid.IntRange(1, 3).Draw(t, "cacheCap") // the value may hold more struct types than the type cache
	}
	msg, res, skipped := checkC02(c)
	if skipped != "" {
		ev.Excluded(strings.SplitN(skipped, ":", 2)[0])
		return
	}
	nt := res.Violations >= 2 || res.NonFirstViol || (res.Violations == 0 && res.Satisfied >= 3)
	ev.Class(fmt.Sprintf("violations=%s", bucket(res.Violations)))
	ev.Class(fmt.Sprintf("depth=%d", res.MaxDepth))
	if res.SawMap {
		ev.Class("has-go-map")
	}
	if len(res.Groups) > 0 {
		ev.Class("has-group-clause")
	}
	ev.Class("entry=" + c.Entry)
	ev.Case(c02Key(c), nt, func() interface{} { return c })
	if msg != "" {
		ev.Fail(t, "C02", "walker", c, "%s", msg)
	}
}

func TestC02(t *testing.T) { rapid.Check(t, propC02) }

func FuzzC02Rapid(f *testing.F) { f.Fuzz(rapid.MakeFuzz(propC02)) }

func bucket(n int) string {
	switch {
	case n == 0:
		return "0"
	case n == 1:
		return "1"
	case n <= 4:
		return "2-4"
	}
	return "5+"
}

func replayStructCases(t *testing.T, prop string, check func(c *StructCase) string) {
	for _, f := range ev.ReplayFiles() {
		rp, err := ev.LoadReplay(f)
		if err != nil {
			t.Fatalf("replay %s: %v", f, err)
		}
		var c StructCase
		if err := json.Unmarshal(rp.Case, &c); err != nil {
			t.Fatalf("replay %s: %v", f, err)
		}
		ev.Class("replayed")
		if msg := check(&c); msg != "" {
			ev.Fail(t, prop, "replay", &c, "%s (replay %s)", msg, f)
		}
	}
}

func TestC02Replay(t *testing.T) {
	replayStructCases(t, "C02", func(c *StructCase) string {
		msg, _, _ := checkC02(c)
		return msg
	})
}
