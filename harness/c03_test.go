package harness

import (
	"fmt"
	"os"
	"strings"
	"testing"

	"pgregory.net/rapid"

	"verifharness/desc"
	"verifharness/ev"
	"verifharness/model"
)

// ---- C03: required means present and non-empty; all other rules skip empty values ----

type c03State struct {
	name  string
	val   desc.V
	empty bool // empty in the sense of `required`
	zero  bool // the zero value of the type
}

type c03Type struct {
	name   string
	t      desc.T
	states []c03State
}

func c03Types() []c03Type {
	inner := desc.T{K: "struct", Fields: []desc.F{{Name: "A", T: desc.Scalar("int")}, {Name: "B", T: desc.Scalar("string")}}}
	innerZero := desc.V{E: []desc.V{{}, {}}}
	innerSet := desc.V{E: []desc.V{{I: 3}, {S: "x"}}}
	var out []c03Type
	out = append(out, c03Type{"string", desc.Scalar("string"), []c03State{{"zero", desc.V{}, true, true}, {"set", desc.Str("abc"), false, false}, {"set-cjk", desc.Str("测试"), false, false}, {"set-digits", desc.Str("12"), false, false},
		// bytes that are no valid UTF-8 (text in GBK / Latin-1): a value like any other, and not an empty one
		{"set-invalid-utf8", desc.V{SB: []byte{0xff, 0xfe}}, false, false}, {"set-invalid-utf8-gbk", desc.V{SB: []byte{0xb2, 0xe2, 0xca, 0xd4}}, false, false}}})
	for _, k := range []string{"int", "int8", "int16", "int32", "int64"} {
		out = append(out, c03Type{k, desc.Scalar(k), []c03State{{"zero", desc.V{}, true, true}, {"set", desc.V{I: 5}, false, false}, {"set-neg", desc.V{I: -1}, false, false}}})
	}
	for _, k := range []string{"uint", "uint8", "uint16", "uint32", "uint64"} {
		out = append(out, c03Type{k, desc.Scalar(k), []c03State{{"zero", desc.V{}, true, true}, {"set", desc.V{U: 5}, false, false}}})
	}
	for _, k := range []string{"float32", "float64"} {
		out = append(out, c03Type{k, desc.Scalar(k), []c03State{{"zero", desc.V{}, true, true}, {"negative-zero", desc.V{NegZero: true}, true, true}, {"set", desc.V{F: 1.5}, false, false}}})
	}
	// named (defined) scalar types, some of which have a String method
	out = append(out, c03Type{"named-string", desc.NamedScalar("string"), []c03State{{"zero", desc.V{}, true, true}, {"set", desc.Str("abc"), false, false}}})
	out = append(out, c03Type{"named-int32-enum", desc.NamedScalar("int32"), []c03State{{"zero", desc.V{}, true, true}, {"set", desc.V{I: 5}, false, false}}})
	out = append(out, c03Type{"named-uint8", desc.NamedScalar("uint8"), []c03State{{"zero", desc.V{}, true, true}, {"set", desc.V{U: 5}, false, false}}})
	out = append(out, c03Type{"named-float64", desc.NamedScalar("float64"), []c03State{{"zero", desc.V{}, true, true}, {"set", desc.V{F: 1.5}, false, false}}})
	out = append(out, c03Type{"named-bool", desc.NamedScalar("bool"), []c03State{{"zero", desc.V{}, true, true}, {"set", desc.V{B: true}, false, false}}})
	out = append(out, c03Type{"bool", desc.Scalar("bool"), []c03State{{"zero", desc.V{}, true, true}, {"set", desc.V{B: true}, false, false}}})
	for _, ek := range []string{"int", "string"} {
		e1 := desc.V{I: 1}
		if ek == "string" {
			e1 = desc.Str("a")
		}
		out = append(out, c03Type{"[]" + ek, desc.Slice(desc.Scalar(ek)), []c03State{{"nil", desc.V{Nil: true}, true, true}, {"empty-non-nil", desc.V{}, true, false}, {"set", desc.V{E: []desc.V{e1, e1}}, false, false}}})
	}
	out = append(out, c03Type{"[2]int", desc.Array(2, desc.Scalar("int")), []c03State{{"zero", desc.V{}, true, true}, {"set", desc.V{E: []desc.V{{I: 1}, {}}}, false, false}}})
	out = append(out, c03Type{"[0]int", desc.Array(0, desc.Scalar("int")), []c03State{{"zero", desc.V{}, true, true}}})
	out = append(out, c03Type{"map[string]int", desc.Map(desc.Scalar("string"), desc.Scalar("int")), []c03State{{"nil", desc.V{Nil: true}, true, true}, {"empty-non-nil", desc.V{}, true, false},
		{"set", desc.V{K: []desc.V{desc.Str("a")}, E: []desc.V{{I: 1}}}, false, false}}})
	out = append(out, c03Type{"struct", inner, []c03State{{"zero", innerZero, true, true}, {"set", innerSet, false, false}}})
	out = append(out, c03Type{"*struct", desc.Ptr(inner), []c03State{{"nil", desc.V{Nil: true}, true, true}, {"to-zero-struct", desc.V{E: []desc.V{innerZero}}, false, false}, {"set", desc.V{E: []desc.V{innerSet}}, false, false}}})
	out = append(out, c03Type{"**struct", desc.Ptr(desc.Ptr(inner)), []c03State{{"nil", desc.V{Nil: true}, true, true}, {"to-nil", desc.V{E: []desc.V{{Nil: true}}}, false, false}, {"set", desc.V{E: []desc.V{{E: []desc.V{innerSet}}}}, false, false}}})
	out = append(out, c03Type{"[]struct", desc.Slice(inner), []c03State{{"nil", desc.V{Nil: true}, true, true}, {"empty-non-nil", desc.V{}, true, false}, {"set", desc.V{E: []desc.V{innerSet}}, false, false}}})
	out = append(out, c03Type{"map[string]*struct", desc.Map(desc.Scalar("string"), desc.Ptr(inner)), []c03State{{"nil", desc.V{Nil: true}, true, true}, {"set", desc.V{K: []desc.V{desc.Str("a")}, E: []desc.V{{E: []desc.V{innerSet}}}}, false, false}}})
	// a pointer to time.Time (optional timestamps of generated code): time.Time VALUES are passed over by the
	// validators, a pointer to one is a pointer like any other for required
	out = append(out, c03Type{"*time.Time", desc.Ptr(desc.Scalar("time")), []c03State{{"nil", desc.V{Nil: true}, true, true}, {"to-zero-time", desc.V{E: []desc.V{{}}}, false, false}, {"set", desc.V{E: []desc.V{{I: 1700000000}}}, false, false}}})
	out = append(out, c03Type{"**time.Time", desc.Ptr(desc.Ptr(desc.Scalar("time"))), []c03State{{"nil", desc.V{Nil: true}, true, true}, {"to-nil", desc.V{E: []desc.V{{Nil: true}}}, false, false}, {"set", desc.V{E: []desc.V{{E: []desc.V{{I: 1700000000}}}}}, false, false}}})
	for _, k := range []string{"string", "int", "bool", "float64"} {
		set := desc.V{I: 5, S: "abc", B: true, F: 1.5}
		out = append(out, c03Type{"*" + k, desc.Ptr(desc.Scalar(k)), []c03State{{"nil", desc.V{Nil: true}, true, true}, {"to-zero", desc.V{E: []desc.V{{}}}, false, false}, {"set", desc.V{E: []desc.V{set}}, false, false}}})
	}
	return out
}

// c03Rules: one instance of every documented rule (plus malformed arguments).
var c03Rules = []string{
	"to=1~3", "ge=2", "le=2", "oto=1~3", "gt=1", "lt=3", "eq=2", "noeq=2", "in=(a/b/5)", "include=(ab/cd)", "phone", "email", "idcard", "year", "year2month", "year2month=/",
	"date", "date=/", "datetime", "datetime='/, ,:'", "int", "ints", "ints=-", "float", "re='^a+$'", "ip", "ipv4", "ipv6", "unique", "json", "prefix=ab", "suffix=bc", "file", "dir",
	"exist", "to=5", "oto=a~b", "in=1/2", "to=1~3|m1", "phone|说明一", "eq=9|m2", "required2", "required_if=x|m3", "requiredPair",
}

func c03Case(ty c03Type, st c03State, rules []string, carrier string, missing bool) *ScalarCase {
	c := &ScalarCase{T: ty.t, Val: st.val, Rules: rules, Carrier: carrier, Missing: missing, RePats: map[string]string{"re='^a+$'": "^a+$"}}
	return c
}

// checkC03: (1) the required clause appears iff the value is empty in the
// documented sense; (2) on an empty value no other rule produces any clause;
// (3) on a non-empty value the full clause list must match where the rule
// oracles decide it (otherwise only (1) is asserted).
func checkC03(c *ScalarCase) (msg string, skipped string) {
	res := c.expect()
	errText, isNil, panicked := c.run()
	if panicked != nil {
		return fmt.Sprintf("panic: %v", panicked), ""
	}
	full := len(res.Excluded) == 0
	if full {
		m := model.Compare(res, errText, isNil, true)
		if m == "" {
			return "", ""
		}
		if c.ifaceKnown() {
			return "", ""
		}
		if c.Missing && ev.KnownActive("KF-missing-required") && isNil && onlyRequiredExpected(res) && ev.Known("KF-missing-required") {
			return "", ""
		}
		return m, ""
	}
	// partial: only the required clause is decided
	wantReq := 0
	for _, e := range model.Flatten(res.Seq) {
		if e.Key == "required" {
			wantReq++
		}
	}
	gotReq := 0
	if !isNil {
		texts := map[string]bool{"it is required": true}
		for _, r := range c.Rules {
			if k, _, m := model.ParseItem(r); k == "required" && m != "" {
				texts[m] = true
			}
		}
		cl, _ := model.ParseErr(errText)
		for _, a := range cl {
			if a.Kind == "value" && a.Echo == "" && texts[a.Text] {
				gotReq++
			}
		}
	}
	if wantReq != gotReq {
		if c.ifaceKnown() {
			return "", ""
		}
		return fmt.Sprintf("required clause expected %d time(s), found %d; error was %q", wantReq, gotReq, errText), ""
	}
	return "", "partial:" + strings.SplitN(res.Excluded[0], ":", 2)[0]
}

func onlyRequiredExpected(res *model.Result) bool {
	for _, e := range model.Flatten(res.Seq) {
		if e.Key != "required" {
			return false
		}
	}
	return true
}

func c03Carriers(ty c03Type) []string {
	var out []string
	for _, car := range Carriers {
		c := &ScalarCase{T: ty.t, Carrier: car}
		if c.carrierOK() {
			out = append(out, car)
		}
	}
	return out
}

// enumC03 enumerates type x emptiness x single rule x with/without required x carrier.
func enumC03(t *testing.T) {
	shard, nshard := ev.Shard()
	idx := 0
	var count, nt int64
	var samples []*ScalarCase
	for _, ty := range c03Types() {
		for _, st := range ty.states {
			for _, car := range c03Carriers(ty) {
				if (car == "url" || car == "urlenc") && !st.zero && !urlSafe(st.val.S) {
					continue
				}
				if car == "url" && st.val.SB != nil {
					continue // (a raw URL cannot carry such bytes; the percent-encoded form does)
				}
				ruleSets := [][]string{{"required"}, {"required|need it"}, {"required|必填项"}}
				for _, r := range c03Rules {
					ruleSets = append(ruleSets, []string{r}, []string{"required", r}, []string{r, "required|need it"})
				}
				for _, rs := range ruleSets {
					variants := []bool{false}
					if car != "var" && car != "tag" && car != "rm" && st.zero {
						variants = []bool{false, true} // present-empty and missing
					}
					// list of maps: besides "the same map twice", lists whose elements differ in
					// whether they hold the key at all (each element is judged on its own)
					patterns := [][]bool{nil}
					if car == "listmap" {
						patterns = [][]bool{nil, {false, true}, {true, false}, {false, true, false}, {true, false, true}}
					}
					for _, missing := range variants {
						for _, pat := range patterns {
							if pat != nil && missing {
								continue
							}
							idx++
							if idx%nshard != shard {
								continue
							}
							c := c03Case(ty, st, rs, car, missing)
							c.ListMissing = pat
							if missing && (car == "map" || car == "mapiface" || car == "url") && idx%2 == 0 {
								// the entry is missing while entries that no rule mentions are present
								c.Others = [][2]string{{"o1", "x"}, {"o2", ""}}
							}
							count++
							if !(ty.name == "string" || ty.name == "int32") {
								nt++
								if len(samples) < 6 && count%977 == 1 {
									samples = append(samples, c)
								}
							}
							ev.Class("state=" + st.name)
							msg, skipped := checkC03(c)
							if skipped != "" {
								ev.Class(skipped)
							}
							if msg != "" {
								ev.Fail(t, "C03", "enum", c, "%s", msg)
							}
						}
					}
				}
			}
		}
	}
	ev.Exhaustive("every catalogue type x emptiness state x (each single documented rule, alone / after required / before required) x every carrier able to hold the type x present/missing entry", int64(idx),
		fmt.Sprintf("this shard ran %d (%d/%d)", count, shard, nshard))
	ev.ExtraAdd("enumerated_cases", count)
	ev.ExtraAdd("enumerated_nontrivial_distinct_by_construction", nt)
	ev.Extra("enumerated_samples", samples)
}

func TestC03(t *testing.T) {
	t.Run("enum", enumC03)
	t.Run("nested-empty", func(t *testing.T) {
		// empty optional sub-objects are skipped, empty mandatory ones are reported, and
		// nothing inside an empty sub-object is ever demanded (reference walker as oracle)
		rapid.Check(t, func(t *rapid.T) {
			c := genC03Nested(t)
			takeGenFlags()
			if rapid.IntRange(0, 29).Draw(t, "deepChain") == 0 {
				// an empty required field far down a chain of required / optional sub-objects
				n := rapid.IntRange(20, 70).Draw(t, "chainLen")
				c = &StructCase{Root: desc.Ptr(desc.Named("Tree")), Val: desc.V{E: []desc.V{deepChain(n, map[int]bool{n - 1: true, rapid.IntRange(0, n-1).Draw(t, "emptyAt"): true})}},
					PerType: map[string]map[string]string{"Tree": {"Left": rapid.SampledFrom([]string{"required|need", "exist"}).Draw(t, "chainMark"), "Name": "required|deep name"}}}
				c.pickEntry(rapid.IntRange(0, 7).Draw(t, "chainEntry"))
			}
			msg, res, skipped := checkC02(c)
			if skipped != "" {
				ev.Excluded(strings.SplitN(skipped, ":", 2)[0])
				return
			}
			ev.Class("nested-empty-subobjects")
			ev.Case("nested:"+c02Key(c), res.Objects >= 2, func() interface{} { return c })
			if msg != "" {
				ev.Fail(t, "C03", "nested", c, "%s", msg)
			}
		})
	})
	t.Run("random", func(t *testing.T) {
		types := c03Types()
		rapid.Check(t, func(t *rapid.T) {
			ty := rapid.SampledFrom(types).Draw(t, "type")
			st := rapid.SampledFrom(ty.states).Draw(t, "state")
			car := rapid.SampledFrom(c03Carriers(ty)).Draw(t, "carrier")
			n := rapid.IntRange(2, 5).Draw(t, "nRules") // lists of >= 2 rules: distinct from the enumerated singles/pairs only when >= 3, counted by hash
			var rs []string
			for i := 0; i < n; i++ {
				if rapid.IntRange(0, 3).Draw(t, "req") == 0 {
					rs = append(rs, rapid.SampledFrom([]string{"required", "required|need it", "required|必填项"}).Draw(t, "reqForm"))
				} else {
					rs = append(rs, rapid.SampledFrom(c03Rules).Draw(t, "rule"))
				}
			}
			if rapid.IntRange(0, 7).Draw(t, "apostrophe") == 0 {
				// the LAST rule of the list demands the value with a message that holds a lone apostrophe (ordinary English);
				// nothing follows it, so no reading of the quote can hand the rest of the list to another rule
				rs[len(rs)-1] = rapid.SampledFrom([]string{"required|name can't be empty", "required|it's needed", "required|姓名 can't be empty"}).Draw(t, "apostropheMsg")
				ev.Class("last-rule-required-with-an-apostrophe-in-its-message")
			}
			if ((car == "url" || car == "urlenc") && !st.zero && !urlSafe(st.val.S)) || (car == "url" && st.val.SB != nil) {
				return
			}
			missing := car != "var" && car != "tag" && car != "rm" && st.zero && rapid.Bool().Draw(t, "missing")
			collDecoy := ""
			if rapid.IntRange(0, 11).Draw(t, "ruleCollision") == 0 && indexOf(c03Carriers(ty), "tag") >= 0 {
				// two rule texts - one demanding the value, one not - that collide under a common 32-bit string hash
				// (collide_test.go): one is the whole rule list of the tag, the other is used by an earlier call on the type
				pair := rapid.SampledFrom(collidingRules()).Draw(t, "rulePair")
				side := rapid.IntRange(0, 1).Draw(t, "ruleSide")
				car, missing, rs, collDecoy = "tag", false, []string{pair[side]}, pair[1-side]
			}
			c := c03Case(ty, st, rs, car, missing)
			if collDecoy != "" {
				c.Decoy = collDecoy
				ev.Class("rule-texts-with-colliding-32-bit-hashes")
			}
			c.ViaPtr = rapid.IntRange(0, 4).Draw(t, "viaPtr") == 0
			c.LateRule = rapid.IntRange(0, 5).Draw(t, "lateRule") == 0
			if car == "rm" && rapid.Bool().Draw(t, "underTag") {
				c.Under = rapid.SampledFrom(underTags).Draw(t, "underRule")
				ev.Class("declared-rule-replaced-by-the-rule-map")
			}
			if car == "tag" && collDecoy == "" && rapid.IntRange(0, 2).Draw(t, "decoy") == 0 {
				// an earlier call on the same struct type whose per-call rule differs in required-ness
				c.Decoy = rapid.SampledFrom([]string{"required", "required|decoy", "to=1~3", "ge=2|decoy", "phone"}).Draw(t, "decoyRule")
				ev.Class("earlier-call-with-other-rule-on-same-type")
			}
			if car == "listmap" && !missing && rapid.Bool().Draw(t, "mixedList") {
				c.ListMissing = rapid.SliceOfN(rapid.Bool(), 2, 4).Draw(t, "listMissing")
				ev.Class("list-of-maps-with-mixed-presence")
			}
			if (car == "url" || car == "urlenc") && rapid.Bool().Draw(t, "others") {
				c.Others = [][2]string{{"a", "1"}, {"zz", ""}}
				c.Pos = rapid.IntRange(0, 2).Draw(t, "pos")
			}
			if car == "url" || car == "urlenc" {
				c.Bare = rapid.Bool().Draw(t, "bare") // an empty value of ours written as the bare name (no '=')
				if c.Bare && !missing && st.name == "zero" {
					ev.Class("url-empty-value-written-bare")
				}
			}
			msg, skipped := checkC03(c)
			ev.Class("state=" + st.name)
			ev.Class("carrier=" + car)
			if missing {
				ev.Class("entry-missing")
			}
			if skipped != "" {
				ev.Class(skipped)
			}
			hasReq := strings.Contains(strings.Join(rs, ","), "required")
			nt := !(ty.name == "string" || ty.name == "int32") && n >= 3
			_ = hasReq
			ev.Case(c.key(), nt, func() interface{} { return c })
			if msg != "" {
				ev.Fail(t, "C03", "random", c, "%s", msg)
			}
		})
	})
}

// genC03Nested: struct types whose container fields (by-value structs, arrays of
// structs, pointers, slices, maps) are optional (exist) or mandatory (required)
// and whose inner types demand their own fields; many sub-objects are empty.
func genC03Nested(t *rapid.T) *StructCase {
	mg := &msgGen{mode: 1}
	g := &structGen{t: t, mg: mg, tag: "valid", maxDepth: rapid.IntRange(1, 3).Draw(t, "maxDepth"), maxField: rapid.IntRange(1, 4).Draw(t, "maxField"),
		containerMarks: []string{"exist", "exist", "required|need", "exist|opt", "-"}, scalarKinds: []string{"string", "int", "uint8", "float64", "bool"}}
	g.leafRules = func(kind string, v desc.V) string {
		switch rapid.IntRange(0, 3).Draw(t, "leafRule") {
		case 0:
			return ""
		case 1:
			m, _ := measureOf(kind, v)
			return genSizeRule(t, m, "leaf") + mg.next(t)
		}
		return "required" + mg.next(t)
	}
	ty, _ := g.genStruct(0)
	walkTypes(&ty, func(st *desc.T) { addGroups(t, st, "valid") })
	val := g.genValueFor(ty, 0)
	// empty sub-objects are what this sub-check is about: zero out some of them
	var zeroSome func(ft desc.T, v *desc.V)
	zeroSome = func(ft desc.T, v *desc.V) {
		switch ft.K {
		case "struct":
			if rapid.IntRange(0, 2).Draw(t, "zeroObj") == 0 {
				*v = desc.V{}
				return
			}
			for i := range ft.Fields {
				if i < len(v.E) {
					zeroSome(ft.Fields[i].T, &v.E[i])
				}
			}
		case "array", "slice", "map", "ptr":
			for i := range v.E {
				zeroSome(*ft.Elem, &v.E[i])
			}
		}
	}
	for i := range ty.Fields {
		if i < len(val.E) {
			zeroSome(ty.Fields[i].T, &val.E[i])
		}
	}
	c := &StructCase{Root: desc.Ptr(ty), Val: desc.V{E: []desc.V{val}}}
	c.pickEntry(rapid.IntRange(0, 7).Draw(t, "entry"))
	return c
}

func TestC03Replay(t *testing.T) {
	// (nested cases are StructCase replays: they carry a "root")
	var scalarFiles []string
	for _, f := range ev.ReplayFiles() {
		rp, err := ev.LoadReplay(f)
		if err == nil && rp.Sub == "nested" {
			var c StructCase
			if err := jsonUnmarshal(rp.Case, &c); err != nil {
				t.Fatalf("replay %s: %v", f, err)
			}
			if msg, _, _ := checkC02(&c); msg != "" {
				ev.Fail(t, "C03", "nested", &c, "%s (replay %s)", msg, f)
			}
			continue
		}
		scalarFiles = append(scalarFiles, f)
	}
	os.Setenv("VERIF_REPLAY_FILES", strings.Join(scalarFiles, "\n"))
	replayScalarCases(t, "C03", func(c *ScalarCase) string {
		msg, _ := checkC03(c)
		return msg
	})
}
