package harness

import (
	"fmt"
	"os"
	"testing"

	"pgregory.net/rapid"

	"verifharness/desc"
	"verifharness/ev"
	"verifharness/lib"
	"verifharness/model"
)

// ---- C04: nested validation reaches exactly the marked sub-objects and names them by path ----

// deepChain builds a linked list of Tree nodes (through Left) of the given
// length; every node at a position listed in emptyAt has an empty Name.
func deepChain(n int, emptyAt map[int]bool) desc.V {
	rt := lib.Types["Tree"]
	idx := func(name string) int {
		f, _ := rt.FieldByName(name)
		return f.Index[0]
	}
	var build func(i int) desc.V
	build = func(i int) desc.V {
		v := zeroDesc(rt)
		if !emptyAt[i] {
			v.E[idx("Name")] = desc.Str("ab")
		}
		if i+1 < n {
			v.E[idx("Left")] = desc.V{E: []desc.V{build(i + 1)}}
		}
		return v
	}
	return build(0)
}

// defaultCacheProcess: this process never replaced the library's own struct-type cache (512 entries).
var defaultCacheProcess = os.Getenv("VERIF_NO_PROXY") != ""

// manyTypesCase: ONE call whose value holds more distinct struct types than the default type
// cache has room for (512), so that the entries of objects still being walked are evicted in
// mid-call - wide (hundreds of marked fields of as many types, rules and marked fields behind them)
// or deep (a chain of as many types, every level with a rule declared AFTER its link).
// The types are few per process: three sizes, two marker patterns.
func manyTypesCase(t *rapid.T) *StructCase {
	return &StructCase{Many: &ManySpec{N: rapid.SampledFrom([]int{515, 600, 640}).Draw(t, "manyTypes"), Alt: rapid.Bool().Draw(t, "manyAltMarks"), Deep: rapid.Bool().Draw(t, "manyDeep")}}
}

// ManySpec stands for the type and value of a many-types case (written out, the deep variant
// is a JSON document nested a thousand levels deep; the case file holds the three parameters).
type ManySpec struct {
	N    int  `json:"n"`
	Alt  bool `json:"alt,omitempty"`
	Deep bool `json:"deep,omitempty"`
}

// expanded returns the case with type and value written out.
func (c *StructCase) expanded() *StructCase {
	if c.Many == nil {
		return c
	}
	out := *c
	out.Root, out.Val = c.Many.build()
	return &out
}

func (m *ManySpec) build() (desc.T, desc.V) {
	n, alt := m.N, m.Alt
	mark := func(i int) string {
		if alt && i%2 == 1 {
			return "exist"
		}
		return "required|need"
	}
	empty := func(i int) bool { return i%7 == 0 || i >= n-20 }
	if m.Deep {
		// T0{Next *T1; A0 string} ... the rule of every level comes after the descent
		var ty desc.T
		var val desc.V
		for i := n - 1; i >= 0; i-- {
			a := desc.F{Name: fmt.Sprintf("A%d", i), T: desc.Scalar("string"), Tags: map[string]string{"valid": fmt.Sprintf("required|a%d", i)}}
			av := desc.Str("x")
			if empty(i) {
				av = desc.V{}
			}
			if i == n-1 {
				ty, val = desc.T{K: "struct", Fields: []desc.F{a}}, desc.V{E: []desc.V{av}}
				continue
			}
			ty = desc.T{K: "struct", Fields: []desc.F{{Name: "Next", T: desc.Ptr(ty), Tags: map[string]string{"valid": mark(i)}}, a}}
			val = desc.V{E: []desc.V{{E: []desc.V{val}}, av}}
		}
		return desc.Ptr(ty), desc.V{E: []desc.V{val}}
	}
	ty := desc.T{K: "struct"}
	val := desc.V{}
	for i := 0; i < n; i++ {
		inner := desc.T{K: "struct", Fields: []desc.F{{Name: fmt.Sprintf("A%d", i), T: desc.Scalar("string"), Tags: map[string]string{"valid": fmt.Sprintf("required|a%d", i)}}, {Name: "N", T: desc.Scalar("int")}}}
		ty.Fields = append(ty.Fields, desc.F{Name: fmt.Sprintf("F%03d", i), T: desc.Ptr(inner), Tags: map[string]string{"valid": mark(i)}})
		iv := desc.V{E: []desc.V{desc.Str("x"), {I: int64(i + 1)}}}
		if empty(i) {
			iv.E[0] = desc.V{}
		}
		val.E = append(val.E, desc.V{E: []desc.V{iv}})
	}
	ty.Fields = append(ty.Fields, desc.F{Name: "Z1", T: desc.Scalar("string"), Tags: map[string]string{"valid": "required|z1"}},
		desc.F{Name: "Z2", T: desc.Scalar("int"), Tags: map[string]string{"valid": "ge=5|z2"}})
	val.E = append(val.E, desc.V{}, desc.V{I: 3})
	return desc.Ptr(ty), desc.V{E: []desc.V{val}}
}

// drawManyTypes decides whether this case is a many-types case (often in the process that runs on the
// library's own cache, now and then elsewhere).
func drawManyTypes(t *rapid.T) bool {
	k := rapid.IntRange(0, 79).Draw(t, "manyTypesCase")
	if defaultCacheProcess {
		return k%4 == 1
	}
	return k == 41
}

func genC04Case(t *rapid.T) *StructCase {
	if drawManyTypes(t) {
		ev.Class("one call over more than 512 distinct struct types")
		return manyTypesCase(t)
	}
	marks := []string{"required|need", "exist", "required|need", "exist", "-", "-"}
	if rapid.IntRange(0, 39).Draw(t, "wideStruct") == 0 {
		// a very wide struct: more than 256 fields, rules and marked sub-objects among the last ones
		n := rapid.IntRange(250, 300).Draw(t, "width")
		inner := desc.T{K: "struct", Fields: []desc.F{{Name: "A", T: desc.Scalar("string"), Tags: map[string]string{"valid": "required|inner A"}}, {Name: "B", T: desc.Scalar("int")}}}
		ty := desc.T{K: "struct"}
		val := desc.V{}
		for i := 0; i < n; i++ {
			f := desc.F{Name: fmt.Sprintf("W%03d", i), T: desc.Scalar("int")}
			v := desc.V{I: int64(i % 3)} // every third field is zero
			switch {
			case i >= n-12 && i%4 == 1:
				f.T = desc.Ptr(inner)
				f.Tags = map[string]string{"valid": rapid.SampledFrom([]string{"required|need", "exist"}).Draw(t, "wideMark")}
				v = desc.V{E: []desc.V{{E: []desc.V{{}, {I: int64(i)}}}}} // populated, inner A empty
			case i >= n-12 || i < 3 || i%50 == 0:
				f.Tags = map[string]string{"valid": fmt.Sprintf("required|w%d", i)}
			}
			ty.Fields = append(ty.Fields, f)
			val.E = append(val.E, v)
		}
		return &StructCase{Root: desc.Ptr(ty), Val: desc.V{E: []desc.V{val}}}
	}
	if rapid.IntRange(0, 24).Draw(t, "deepChain") == 0 {
		// a very deep (but narrow) graph: 20..70 nested levels
		n := rapid.IntRange(20, 70).Draw(t, "chainLen")
		empty := map[int]bool{n - 1: true}
		for i := rapid.IntRange(0, 3).Draw(t, "moreEmpty"); i > 0; i-- {
			empty[rapid.IntRange(0, n-1).Draw(t, "emptyAt")] = true
		}
		return &StructCase{Root: desc.Ptr(desc.Named("Tree")), Val: desc.V{E: []desc.V{deepChain(n, empty)}},
			PerType: map[string]map[string]string{"Tree": {"Left": rapid.SampledFrom([]string{"required|need", "exist"}).Draw(t, "chainMark"), "Name": "required|deep name"}}}
	}
	if rapid.IntRange(0, 2).Draw(t, "mode") > 0 {
		c := genNamedCase(t, namedOpts{roots: []string{"Tree", "Tree", "Top", "Mid", "Alias"}, marks: marks, msgMode: rapid.SampledFrom([]int{1, 2}).Draw(t, "msgs"),
			maxDepth: ev.Pick(5, 8), density: 6, unscoped: true})
		if c.Unscoped != nil {
			// an unscoped rule set belongs to the outermost object only - also when its type recurs further
			// down (Tree); it is defined for a single top-level struct (and not next to a per-type set for that type)
			if k := c.Root.K; k == "named" || (k == "ptr" && (c.Root.Elem.K == "named" || c.Root.Elem.K == "ptr")) {
				delete(c.PerType, rootOf(c))
			} else {
				c.Unscoped = nil
			}
		}
		return c
	}
	// run-time synthesised nested types, deep and narrow
	mg := &msgGen{mode: 1}
	g := &structGen{t: t, mg: mg, tag: "valid", maxDepth: rapid.IntRange(1, ev.Pick(7, 12)).Draw(t, "maxDepth"), maxField: rapid.IntRange(1, 3).Draw(t, "maxField"),
		containerMarks: marks, scalarKinds: []string{"string", "int", "uint8", "float64"}, unexported: true, withTime: true}
	g.leafRules = func(kind string, v desc.V) string {
		if rapid.IntRange(0, 3).Draw(t, "leafHasRule") == 0 {
			return ""
		}
		m, _ := measureOf(kind, v)
		return genSizeRule(t, m, "leaf") + mg.next(t)
	}
	if rapid.IntRange(0, 19).Draw(t, "mutualRecursion") == 11 {
		// two named types that refer to each other, rules in their tags, no rule set on the call
		root := rapid.SampledFrom([]string{"DirT", "DirT", "EntsT"}).Draw(t, "mutualRoot")
		return &StructCase{Root: desc.Ptr(desc.Named(root)), Val: desc.V{E: []desc.V{genValueRT(t, lib.Types[root], 0, rapid.IntRange(2, 6).Draw(t, "mutualDepth"))}}}
	}
	if rapid.IntRange(0, 24).Draw(t, "payloadFirst") == 0 {
		// a payload-sized collection of scalars under a marker, declared before marked sub-objects:
		// whatever the walker counts or buffers per element, the sub-objects behind it are still reached
		ek := rapid.SampledFrom([]string{"uint8", "string", "int"}).Draw(t, "payloadElem")
		unit := []desc.V{genScalar(t, ek, "payloadVal", true), genScalar(t, ek, "payloadVal2", true)}
		pv := desc.V{}
		for total := rapid.SampledFrom([]int{9000, 10001, 12000, 16384, 40000}).Draw(t, "payloadLen"); len(pv.E) < total; {
			pv.E = append(pv.E, unit...)
		}
		pt := desc.T{K: "struct", Fields: []desc.F{{Name: "Payload", T: desc.Slice(desc.Scalar(ek)),
			Tags: map[string]string{"valid": rapid.SampledFrom([]string{"required", "exist", "required|need"}).Draw(t, "payloadMark")}}}}
		val := desc.V{E: []desc.V{pv}}
		for i := rapid.IntRange(1, 2).Draw(t, "behindPayload"); i > 0; i-- {
			f, v := g.containerField(fieldNames[i], 1)
			pt.Fields = append(pt.Fields, f)
			val.E = append(val.E, v)
		}
		genFlags.bulk = true
		return &StructCase{Root: desc.Ptr(pt), Val: desc.V{E: []desc.V{val}}}
	}
	withFnMarks := rapid.IntRange(0, 5).Draw(t, "fnMarks") == 3
	if withFnMarks {
		// functions given for the call under names that merely BEGIN like the markers of nested validation:
		// a field that carries such a name is not a marked field
		g.containerMarks = append(g.containerMarks, "required_if", "existing", "requiredx", "exist_in")
	}
	ty, _ := g.genStruct(0)
	// group clauses name their object by path too
	walkTypes(&ty, func(st *desc.T) { addGroups(t, st, "valid") })
	c := &StructCase{Root: desc.Ptr(ty), Val: desc.V{E: []desc.V{g.genValueFor(ty, 0)}}}
	if withFnMarks {
		c.CallFns = []string{"required_if", "existing", "requiredx", "exist_in"}
	}
	if rapid.IntRange(0, 3).Draw(t, "top") == 0 {
		c.Root = desc.Map(desc.Scalar("string"), ty)
		c.Val = g.genValueFor(c.Root, 0)
	}
	return c
}

// checkC04: the set of (path, marker) pairs must equal the walker's set -
// completeness (every marked, populated sub-object reached at any depth) and
// soundness (nothing under an unmarked / unexported / time.Time / nil / zero
// sub-object).
func checkC04(c *StructCase) (msg string, res *model.Result, skipped string) {
	res, errText, isNil, panicked := runStructCase(c)
	if panicked != nil {
		return fmt.Sprintf("panic: %v", panicked), res, ""
	}
	if len(res.Excluded) > 0 {
		return "", res, res.Excluded[0]
	}
	return model.ComparePaths(res, errText, isNil), res, ""
}

// propC04 is the property; TestC04 drives it with rapid's random generator, FuzzC04Rapid with the coverage-guided
// native fuzzer (thorough tier: rapid.MakeFuzz turns the fuzzer's bytes into the draws).
func propC04(t *rapid.T) {
	c := genC04Case(t)
	takeGenFlags()
	if rapid.IntRange(0, 5).Draw(t, "smallCache") == 3 {
		c.Cache = rapid.IntRange(1, 3).Draw(t, "cacheCap") // the value may hold more struct types than the type cache
	}
	c.pickEntry(rapid.IntRange(0, 7).Draw(t, "entry"))
	msg, res, skipped := checkC04(c)
	if skipped != "" {
		ev.Excluded(skipped)
		return
	}
	special := res.SawMap || res.SawArray || res.SawPtrPtr || res.SawNilElem || res.UnmarkedPop
	nt := res.Violations > 0 && (res.MaxDepth >= 3 || special)
	ev.Class(fmt.Sprintf("depth=%s", bucket(res.MaxDepth)))
	for name, on := range map[string]bool{"go-map": res.SawMap, "array": res.SawArray, "ptr-to-ptr": res.SawPtrPtr, "nil-element-or-pointer": res.SawNilElem,
		"unmarked-populated-subobject": res.UnmarkedPop, "unexported-field": res.SawUnexp, "time.Time-field": res.SawTime} {
		if on {
			ev.Class("has-" + name)
		}
	}
	ev.Class(fmt.Sprintf("violations=%s", bucket(res.Violations)))
	ev.Case(c02Key(c), nt, func() interface{} { return c })
	if msg != "" {
		ev.Fail(t, "C04", "reach", c, "%s", msg)
	}
}

func TestC04(t *testing.T) { rapid.Check(t, propC04) }

func FuzzC04Rapid(f *testing.F) { f.Fuzz(rapid.MakeFuzz(propC04)) }

func TestC04Replay(t *testing.T) {
	replayStructCases(t, "C04", func(c *StructCase) string {
		msg, _, _ := checkC04(c)
		return msg
	})
}
