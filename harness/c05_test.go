package harness

import (
	"fmt"
	"math"
	"os"
	"path/filepath"
	"regexp"
	"strconv"
	"strings"
	"testing"

	"pgregory.net/rapid"

	"verifharness/desc"
	"verifharness/ev"
	"verifharness/model"
)

// ---- C05: format and content rules accept exactly their documented language ----

var fsPaths struct{ file, dir, missing, root, linkFile, linkDir, dangling, loop, throughFile, longName string }

// setupFS creates the ground truth for file / dir: a regular file, a directory, a missing path.
func setupFS() func() {
	root, err := os.MkdirTemp("", "c05fs")
	if err != nil {
		panic(err)
	}
	fsPaths.root = root
	fsPaths.file = filepath.Join(root, "plain.txt")
	fsPaths.dir = filepath.Join(root, "sub")
	fsPaths.missing = filepath.Join(root, "nothing-here")
	fsPaths.throughFile = filepath.Join(fsPaths.file, "child")
	fsPaths.longName = filepath.Join(root, strings.Repeat("n", 300))
	_ = os.WriteFile(fsPaths.file, []byte("x"), 0o644)
	_ = os.Mkdir(fsPaths.dir, 0o755)
	// symbolic links: to the file, to the directory, to nothing (dangling), to itself (loop)
	fsPaths.linkFile, fsPaths.linkDir = filepath.Join(root, "ln-file"), filepath.Join(root, "ln-dir")
	fsPaths.dangling, fsPaths.loop = filepath.Join(root, "ln-dangling"), filepath.Join(root, "ln-loop")
	_ = os.Symlink(fsPaths.file, fsPaths.linkFile)
	_ = os.Symlink(fsPaths.dir, fsPaths.linkDir)
	_ = os.Symlink(filepath.Join(root, "gone"), fsPaths.dangling)
	_ = os.Symlink(fsPaths.loop, fsPaths.loop)
	// (links are followed: a link to a file is a file, a link to a directory a directory; a dangling
	// link or a link loop names nothing, like a missing path)
	fsEnv = &model.Env{Files: map[string]bool{fsPaths.file: true, fsPaths.linkFile: true}, Dirs: map[string]bool{fsPaths.dir: true, root: true, fsPaths.linkDir: true}}
	return func() { os.RemoveAll(root) }
}

var c05RuleNames = []string{"in", "include", "phone", "email", "idcard", "ip", "ipv4", "ipv6", "year", "year2month", "date", "datetime", "int", "ints", "float", "re", "unique", "json", "prefix", "suffix", "file", "dir"}

// pick3 chooses among member / near-miss / random.
func pick3(t *rapid.T) string {
	return rapid.SampledFrom([]string{"member", "member", "near", "near", "near", "random"}).Draw(t, "valueClass")
}

func strVal(s string) (desc.T, desc.V) { return desc.Scalar("string"), desc.Str(s) }

func optQuote(t *rapid.T, s string) string {
	if strings.ContainsAny(s, "/,") || rapid.IntRange(0, 4).Draw(t, "quoteOpt") == 0 {
		return "'" + s + "'"
	}
	return s
}

var rePatterns = []struct{ pat, hit, miss string }{
	{`a{3}`, "xaaay", "a{3}"}, {`ab{1,2}c`, "abbc", "ab{1,2}c"}, {`-{2,}`, "a--b", "-{2,}"}, {`0{4}`, "10000", "0{4}"},
	{`^a+$`, "aaa", "aab"}, {`^\d{3}$`, "123", "12a"}, {`^(ab|cd)$`, "cd", "abcd"}, {`^[a-c]+,[x-z]+$`, "ab,xy", "ab;xy"}, {`^x{1,2}$`, "xx", "xxx"},
	{`^(foo|ba[rz]),\d+$`, "baz,42", "bat,42"}, {`^(cat|cow)$`, "cow", "dog"}, {`^(cat|dog)$`, "dog", "cow"}, {`^(cat|dog|cow)$`, "cow", "cot"}, {`测试+`, "a测试试", "测"}, {`^a\.b$`, "a.b", "axb"}, {`^[^,]+$`, "abc", "a,c"}, {`(?i)^ok$`, "OK", "okay"},
}

// genC05Case draws one (rule, value) pair with the value classified as a member
// of the rule's language, a near-miss (one edit away from a member) or random.
func genC05Case(t *rapid.T) (c *ScalarCase, rule, class string) {
	rule = rapid.SampledFrom(c05RuleNames).Draw(t, "rule")
	c, class = genC05CaseFor(t, rule)
	if (rule == "date" || rule == "datetime") && rapid.Bool().Draw(t, "withZone") {
		// the date languages know no time zone: the verdict must not depend on the zone the process runs in
		c.TZ = rapid.SampledFrom(c05Zones).Draw(t, "zone")
	}
	return c, rule, class
}

// genC05CaseFor draws a (value, arguments) pair for one given rule.
func genC05CaseFor(t *rapid.T, rule string) (c *ScalarCase, class string) {
	class = pick3(t)
	c = &ScalarCase{RePats: map[string]string{}}
	item := rule
	reDecoy := ""
	setStr := func(member string) {
		v := member
		switch class {
		case "near":
			v = editOnce(t, member)
			if rapid.IntRange(0, 4).Draw(t, "secondEdit") == 0 {
				v = editOnce(t, v)
			}
		case "random":
			v = randomHostile(t)
		}
		c.T, c.Val = strVal(v)
	}
	switch rule {
	case "phone":
		setStr(genPhone(t))
	case "email":
		setStr(genEmail(t))
	case "idcard":
		setStr(genIDCard(t))
	case "ipv4":
		setStr(genIPv4(t))
	case "ipv6":
		setStr(genIPv6(t))
		if class == "near" && rapid.IntRange(0, 5).Draw(t, "zone") == 2 {
			// an address with a zone (fe80::1%eth0) is no address for these rules
			c.T, c.Val = strVal(genIPv6(t) + rapid.SampledFrom([]string{"%eth0", "%1", "%lo0"}).Draw(t, "zoneText"))
		}
	case "ip":
		if class == "near" && rapid.IntRange(0, 7).Draw(t, "zone") == 2 {
			c.T, c.Val = strVal(genIPv6(t) + rapid.SampledFrom([]string{"%eth0", "%1"}).Draw(t, "zoneText"))
		} else if rapid.Bool().Draw(t, "ipFamily") {
			setStr(genIPv4(t))
		} else {
			setStr(genIPv6(t))
		}
	case "year", "year2month", "date", "datetime":
		n := map[string]int{"year": 1, "year2month": 2, "date": 3, "datetime": 6}[rule]
		seps := [3]string{"-", " ", ":"}
		if rule != "year" && rapid.Bool().Draw(t, "customSep") {
			if rule == "datetime" {
				k := rapid.IntRange(1, 3).Draw(t, "nSeps")
				var parts []string
				for i := 0; i < k; i++ {
					s := rapid.SampledFrom(sepPool).Draw(t, "sep")
					seps[i] = s
					parts = append(parts, s)
				}
				if rapid.IntRange(0, 2).Draw(t, "siblingSeps") == 1 {
					// separator lists that differ but read alike once written one after the other
					// ("-" "" ":" / "" "-" ":"; the default list spelled out): each has a layout of its own
					parts = rapid.SampledFrom([][]string{{"-", "", ":"}, {"", "-", ":"}, {"-", " ", ":"}, {"", "- ", ":"}, {"- ", "", ":"}, {".", "T", ":"}, {".T", "", ":"}, {"", ".T", ":"}}).Draw(t, "siblingList")
					k = 3
					copy(seps[:], parts)
				}
				if k == 1 && parts[0] != "" && rapid.Bool().Draw(t, "unquoted") {
					item = rule + "=" + parts[0]
				} else {
					item = rule + "='" + strings.Join(parts, ",") + "'"
				}
			} else {
				s := rapid.SampledFrom(sepPool).Draw(t, "sep")
				seps[0] = s
				if s != "" && rapid.Bool().Draw(t, "unquoted") {
					item = rule + "=" + s
				} else {
					item = rule + "='" + s + "'"
				}
			}
		}
		member := genDateLike(t, n, seps)
		switch class {
		case "member":
			c.T, c.Val = strVal(member)
		case "near":
			if rapid.Bool().Draw(t, "directed") {
				c.T, c.Val = strVal(mutateDate(t, member, n, seps))
			} else {
				c.T, c.Val = strVal(editOnce(t, member))
			}
		default:
			c.T, c.Val = strVal(randomHostile(t))
		}
	case "int", "float":
		switch rapid.IntRange(0, 5).Draw(t, "numInput") {
		case 0: // numeric kinds
			k := rapid.SampledFrom([]string{"int", "int8", "int64", "uint", "uint16", "float32", "float64", "bool"}).Draw(t, "numKind")
			c.T, c.Val = desc.Scalar(k), genScalar(t, k, "num", false)
			class = "typed-" + k
		default:
			member := digits(t, rapid.SampledFrom([]int{1, 2, 3, 4, 5, 6, 6, 19, 20, 21, 25, 40}).Draw(t, "nd"), "d") // (beyond 19 / 20 digits no machine integer holds the number: it is a digit string all the same)
			if rule == "float" {
				member += "." + digits(t, rapid.IntRange(1, 4).Draw(t, "nf"), "f")
			}
			if class == "near" && rapid.IntRange(0, 2).Draw(t, "directedNum") == 0 {
				near := rapid.SampledFrom([]string{"-" + member, "+" + member, member + ".", "." + member, strings.Replace(member, ".", "x", 1), member + "e3", " " + member, "１２", member + ".1"}).Draw(t, "nearNum")
				c.T, c.Val = strVal(near)
			} else {
				setStr(member)
			}
		}
	case "ints":
		sep := ","
		if rapid.Bool().Draw(t, "intsSep") {
			sep = rapid.SampledFrom([]string{"-", "/", ";", " ", "::", "."}).Draw(t, "sepv")
			item = "ints=" + sep
		}
		switch rapid.IntRange(0, 3).Draw(t, "intsInput") {
		case 0: // slices / arrays
			ek := rapid.SampledFrom([]string{"int", "string", "uint8", "float64"}).Draw(t, "ek")
			n := rapid.IntRange(1, 4).Draw(t, "n")
			var es []desc.V
			for i := 0; i < n; i++ {
				if ek == "string" {
					es = append(es, desc.Str(rapid.SampledFrom([]string{"1", "22", "a", "-1", "3.5", "", "０"}).Draw(t, "e")))
				} else {
					es = append(es, genScalar(t, ek, "e", true))
				}
			}
			c.T, c.Val = desc.Slice(desc.Scalar(ek)), desc.V{E: es}
			if rapid.Bool().Draw(t, "asArray") {
				c.T = desc.Array(n, desc.Scalar(ek))
			}
			class = "typed-collection"
		default:
			var parts []string
			for i := rapid.IntRange(1, 4).Draw(t, "n"); i > 0; i-- {
				parts = append(parts, digits(t, rapid.IntRange(1, 3).Draw(t, "nd"), "d"))
			}
			setStr(strings.Join(parts, sep))
		}
	case "unique":
		switch rapid.IntRange(0, 2).Draw(t, "uniqInput") {
		case 0:
			ek := rapid.SampledFrom([]string{"int", "string", "float64", "bool", "float32", "int64", "uint64"}).Draw(t, "ek")
			n := rapid.IntRange(1, 4).Draw(t, "n")
			big := rapid.Bool().Draw(t, "bigInts")
			var es []desc.V
			for i := 0; i < n; i++ {
				switch ek {
				case "string":
					es = append(es, desc.Str(rapid.SampledFrom([]string{"a", "b", "c", "1", "1.0", ""}).Draw(t, "e")))
				case "float64", "float32":
					f := rapid.SampledFrom([]float64{1, 1.5, 2, 0.5, 0.1, 0.10000000149011612, 19.99, 16777216, 16777217}).Draw(t, "e")
					if ek == "float32" {
						f = float64(float32(f))
					}
					es = append(es, desc.V{F: f})
				case "bool":
					es = append(es, desc.V{B: rapid.Bool().Draw(t, "e")})
				case "uint64":
					es = append(es, desc.V{U: rapid.SampledFrom([]uint64{0, 1, 2, math.MaxUint64, math.MaxUint64 - 1, 1 << 53, 1<<53 + 1, 1 << 63, 1<<63 + 1}).Draw(t, "e")})
				default:
					if big {
						// neighbours beyond 2^53: different integers, one float64
						es = append(es, desc.V{I: rapid.SampledFrom([]int64{1 << 53, 1<<53 + 1, math.MaxInt64, math.MaxInt64 - 1, math.MinInt64, math.MinInt64 + 1, 1234567890123456789, 1234567890123456790, 3}).Draw(t, "e")})
					} else {
						es = append(es, desc.V{I: int64(rapid.IntRange(0, 3).Draw(t, "e"))})
					}
				}
			}
			c.T, c.Val = desc.Slice(desc.Scalar(ek)), desc.V{E: es}
			class = "typed-collection"
		default:
			var parts []string
			for i := rapid.IntRange(1, 4).Draw(t, "n"); i > 0; i-- {
				parts = append(parts, rapid.SampledFrom([]string{"a", "b", "c", "ab", "1", "测"}).Draw(t, "u"))
			}
			c.T, c.Val = strVal(strings.Join(parts, ","))
			class = "list"
		}
	case "json":
		switch class {
		case "member":
			c.T, c.Val = strVal(genJSON(t, 0))
		case "near":
			if rapid.Bool().Draw(t, "directedJSON") {
				c.T, c.Val = strVal(rapid.SampledFrom(jsonNearMisses).Draw(t, "nearJSON"))
			} else {
				c.T, c.Val = strVal(editOnce(t, genJSON(t, 0)))
			}
		default:
			c.T, c.Val = strVal(randomHostile(t))
		}
	case "prefix", "suffix":
		arg := rapid.SampledFrom([]string{"ab", "测", "a b", "x-", "0", "http://", "é"}).Draw(t, "affix")
		item = rule + "=" + arg
		body := rapid.SampledFrom([]string{"", "c", "测试", "zz9"}).Draw(t, "body")
		member := arg + body
		if rule == "suffix" {
			member = body + arg
		}
		setStr(member)
	case "in", "include":
		pool := []string{"a", "ab", "abc", "1", "2", "10", "1.5", "true", "测试", "x y", "a/b", "c,d", "A"}
		n := rapid.IntRange(1, 4).Draw(t, "nOpts")
		var opts, quoted []string
		for i := 0; i < n; i++ {
			o := rapid.SampledFrom(pool).Draw(t, "opt")
			opts = append(opts, o)
			quoted = append(quoted, optQuote(t, o))
		}
		item = rule + "=(" + strings.Join(quoted, "/") + ")"
		if rule == "in" && rapid.IntRange(0, 2).Draw(t, "typedIn") == 0 {
			k := rapid.SampledFrom([]string{"int", "uint8", "float64", "float32", "bool", "int64"}).Draw(t, "k")
			switch k {
			case "bool":
				c.T, c.Val = desc.Scalar(k), desc.V{B: true}
			case "float64", "float32":
				f := rapid.SampledFrom([]float64{1, 1.5, 2, 10, 0.1, 19.99, 1.1, 0.001, 3.0000001, 16777217, 1e-7, 123456.789}).Draw(t, "f")
				if k == "float32" {
					f = float64(float32(f))
				}
				c.T, c.Val = desc.Scalar(k), desc.V{F: f}
			case "uint8":
				c.T, c.Val = desc.Scalar(k), desc.V{U: uint64(rapid.SampledFrom([]int{1, 2, 10, 3}).Draw(t, "u"))}
			default:
				c.T, c.Val = desc.Scalar(k), desc.V{I: int64(rapid.SampledFrom([]int{1, 2, 10, 3, -1}).Draw(t, "i"))}
			}
			class = "typed-" + k
			// half of the time the value's canonical decimal rendering is one of the options
			if canon := canonOf(k, c.Val); rapid.Bool().Draw(t, "canonAmongOpts") && safeOpt(canon) {
				quoted[rapid.IntRange(0, len(quoted)-1).Draw(t, "canonPos")] = canon
				item = rule + "=(" + strings.Join(quoted, "/") + ")"
			}
		} else {
			o := rapid.SampledFrom(opts).Draw(t, "hitOpt")
			if n >= 2 && class == "near" && rapid.IntRange(0, 3).Draw(t, "spanOpts") == 0 {
				// a value that spans neighbouring options (or starts / ends at a separator)
				i := rapid.IntRange(0, n-2).Draw(t, "spanAt")
				o = rapid.SampledFrom([]string{opts[i] + "/" + opts[i+1], "/" + opts[i], opts[i] + "/", opts[i] + "/" + opts[i+1] + "/"}).Draw(t, "spanShape")
				c.T, c.Val = strVal(o)
			} else {
				if rule == "include" && class == "member" {
					o = rapid.SampledFrom([]string{"", "zz", "_"}).Draw(t, "pre") + o + rapid.SampledFrom([]string{"", "zz"}).Draw(t, "post")
				}
				setStr(o)
			}
		}
	case "re":
		p := rapid.SampledFrom(rePatterns).Draw(t, "pattern")
		if rapid.IntRange(0, 2).Draw(t, "reFamily") == 1 {
			// one of 700 patterns of a family: a process meets more distinct patterns than any bounded memo of compiled
			// expressions holds, and meets each of them again later
			n := 1 + int(rapid.Uint64().Draw(t, "reFamilyN")%700) // (spread evenly: range draws favour small values)
			p.pat, p.hit, p.miss = fmt.Sprintf("^k{%d}b$", n), strings.Repeat("k", n)+"b", strings.Repeat("k", n+1)+"b"
		} else if rapid.IntRange(0, 5).Draw(t, "reCollision") == 0 {
			// two patterns that collide under a common 32-bit string hash (collide_test.go): the other one is
			// used by an earlier call on the same value, then ours is judged
			pair := rapid.SampledFrom(collidingRes()).Draw(t, "rePair")
			side := rapid.IntRange(0, 1).Draw(t, "reSide")
			w := strings.Trim(pair[side], "^$")
			p.pat, p.hit, p.miss = pair[side], w, strings.Trim(pair[1-side], "^$")
			reDecoy = "re='" + pair[1-side] + "'"
		}
		item = "re='" + p.pat + "'"
		switch class {
		case "member":
			c.T, c.Val = strVal(p.hit)
		case "near":
			c.T, c.Val = strVal(p.miss)
		default:
			c.T, c.Val = strVal(randomHostile(t))
		}
		c.RePats[item] = p.pat
	case "file", "dir":
		p := rapid.SampledFrom([]string{fsPaths.file, fsPaths.dir, fsPaths.missing, fsPaths.root, fsPaths.linkFile, fsPaths.linkDir, fsPaths.dangling, fsPaths.loop, fsPaths.throughFile, fsPaths.longName}).Draw(t, "path")
		c.T, c.Val = strVal(p)
		class = map[string]string{fsPaths.file: "regular-file", fsPaths.dir: "directory", fsPaths.missing: "missing-path", fsPaths.root: "directory",
			fsPaths.linkFile: "link-to-file", fsPaths.linkDir: "link-to-directory", fsPaths.dangling: "dangling-link", fsPaths.loop: "link-loop", fsPaths.throughFile: "path-through-a-regular-file", fsPaths.longName: "name-too-long"}[p]
	}
	// custom message (half of the cases), neighbours in the rule list so the splitter is exercised
	if rapid.Bool().Draw(t, "withMsg") {
		old := item
		item += rapid.SampledFrom([]string{"|m1", "|格式不对", "|bad value 值", "|'quoted, 值'", "|'a,b'"}).Draw(t, "msg") // (a message with a comma is written in quotes)
		if p, ok := c.RePats[old]; ok {
			delete(c.RePats, old)
			c.RePats[item] = p
		}
	}
	c.Rules = []string{item}
	if c.T.K != "bool" && rapid.IntRange(0, 2).Draw(t, "neighbours") > 0 {
		c.Rules = []string{rapid.SampledFrom([]string{"required", "required", `required|'need, really\'`}).Draw(t, "firstNeighbour"), item, "noeq=77777|nb"}
		if c.T.K == "array" {
			c.Rules = []string{"required", item}
		}
	}
	c.Carrier = rapid.SampledFrom([]string{"var", "tag", "tag", "rm"}).Draw(t, "carrier")
	if reDecoy != "" {
		c.Carrier = "tag"
	}
	finishScalar(t, c)
	if reDecoy != "" && c.Carrier == "tag" {
		c.Decoy = reDecoy
		ev.Class("re-patterns-with-colliding-32-bit-hashes")
	}
	return c, class
}

func c05Excluded(c *ScalarCase) string {
	s := c.Val.S
	if c.Val.SB != nil {
		s = string(c.Val.SB)
	}
	if model.AmbiguousText(s) {
		return "value-makes-error-text-ambiguous"
	}
	if c.T.K == "string" && s == "" {
		return "empty-value"
	}
	return ""
}

func checkC05(c *ScalarCase) (msg string, skipped string, res *model.Result) {
	if x := c05Excluded(c); x != "" {
		return "", x, nil
	}
	res = c.expect()
	if len(res.Excluded) > 0 {
		return "", res.Excluded[0], res
	}
	errText, isNil, panicked := c.run()
	if panicked != nil {
		return fmt.Sprintf("panic: %v", panicked), "", res
	}
	return model.Compare(res, errText, isNil, true), "", res
}

func TestC05(t *testing.T) {
	cleanup := setupFS()
	defer cleanup()
	rapid.Check(t, func(t *rapid.T) {
		c, rule, class := genC05Case(t)
		msg, skipped, res := checkC05(c)
		if skipped != "" {
			ev.Excluded(skipped)
			return
		}
		verdict := "accepted"
		for _, e := range model.Flatten(res.Seq) {
			if e.Key == rule {
				verdict = "rejected"
				if e.Kind == "cfg" {
					verdict = "rule-writing-error"
				}
			}
		}
		ev.Class(rule + "/" + class + "/" + verdict)
		ev.Class("carrier=" + c.Carrier)
		if c.TZ != "" {
			ev.Class("local-time-zone=" + c.TZ)
		}
		nt := class == "member" || class == "near" || strings.HasPrefix(class, "typed") || class == "list" || rule == "file" || rule == "dir"
		ev.Case(c.key(), nt, func() interface{} { return c })
		if msg != "" {
			ev.Fail(t, "C05", rule, c, "%s", msg)
		}
	})
}

func TestC05Replay(t *testing.T) {
	cleanup := setupFS()
	defer cleanup()
	replayScalarCases(t, "C05", func(c *ScalarCase) string {
		fixFSPaths(c)
		msg, _, _ := checkC05(c)
		return msg
	})
}

// fixFSPaths re-targets file/dir replay cases at this process's temp tree.
func fixFSPaths(c *ScalarCase) {
	for _, r := range c.Rules {
		if k, _, _ := model.ParseItem(r); k == "file" || k == "dir" {
			switch filepath.Base(c.Val.S) {
			case "plain.txt":
				c.Val.S = fsPaths.file
			case "sub":
				c.Val.S = fsPaths.dir
			case "nothing-here":
				c.Val.S = fsPaths.missing
			case "ln-file":
				c.Val.S = fsPaths.linkFile
			case "ln-dir":
				c.Val.S = fsPaths.linkDir
			case "ln-dangling":
				c.Val.S = fsPaths.dangling
			case "ln-loop":
				c.Val.S = fsPaths.loop
			}
		}
	}
}

var _ = regexp.MustCompile
var _ = strconv.Itoa
