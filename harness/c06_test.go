package harness

import (
	"bytes"
	"fmt"
	"go/ast"
	"go/parser"
	"go/token"
	"os"
	"os/exec"
	"path/filepath"
	"reflect"
	"strings"
	"sync"
	"syscall"
	"testing"

	"gitee.com/xuesongtao/protoc-go-valid/file"
	"pgregory.net/rapid"

	"verifharness/ev"
)

// ---- C06: tag injection merges comment tags into struct tags and changes nothing else ----

// InjectCase: one file, one way of running the injector.
type InjectCase struct {
	File SrcFile  `json:"file"`
	Mode string   `json:"mode"` // lib | cli-f | cli-d | cli-p
	Runs int      `json:"runs,omitempty"`
	Hist []string `json:"hist,omitempty"` // C07: the entry used by each run
	// Sub: name of the directory (below the scratch directory) that holds the file
	Sub string `json:"sub,omitempty"`
	// Via: how the CLI runs are told where the files are (see injectVia)
	Via string `json:"via,omitempty"`
}

// genDirName: how the directory handed to the tool is called.  Names with glob metacharacters are
// only used when no -p run is part of the case (there the directory is part of the user's own pattern).
func genDirName(t *rapid.T, withGlobRun bool) string {
	names := []string{"", "", "", "pb", "gen pb", "生成", "x.go", "it's", "{x}", "a,b", "-d", "pb.v2"}
	if !withGlobRun {
		names = append(names, "proto[v2]", "a*b", "q?", `back\slash`, "[", "[a-z]", "[!x]")
	}
	return rapid.SampledFrom(names).Draw(t, "dirName")
}

// workSub creates the sub-directory of the scratch directory that a case asks for.
func workSub(dir, sub string) (string, error) {
	if sub == "" {
		return dir, nil
	}
	d := filepath.Join(dir, sub)
	return d, os.Mkdir(d, 0o755)
}

var workSeq int

func newWorkDir() string {
	workSeq++
	d, err := os.MkdirTemp("", fmt.Sprintf("inj%d-", workSeq))
	if err != nil {
		panic(err)
	}
	return d
}

// runInjector processes the file (or its directory) once through the given entry.
func runInjector(mode, dir, path string) (output string, err error) {
	return runInjectorAs(false, mode, dir, path)
}

// injectVia: how the CLI is told where the files are ("" = absolute paths, as everywhere else):
//
//	rel      the process runs in the parent directory and gets <base>, <base>/*.go, <base>/<file>
//	rel-dot  the same with a leading ./
//	dotdot   an absolute path that ends in <symlink>/.. where the link points one level below the
//	         directory (the kernel resolves it to the directory, lexical cleaning does not)
var injectVia string

var injectVias = []string{"", "", "", "rel", "rel", "rel-dot", "dotdot"}

const nobodyID = 65534

var unprivState struct {
	once sync.Once
	how  string // "" = not available, "native" = this process is not root, "setuid" = root that can drop to nobody
	base string // setuid: a world-reachable scratch directory (the usual one may lie below a private directory)
	pgv  string // setuid: a copy of the CLI inside base
}

// unprivCleanup removes the world-reachable scratch directory (TestMain calls it at exit).
func unprivCleanup() {
	if unprivState.base != "" {
		_ = os.RemoveAll(unprivState.base)
	}
}

// newWorkDirFor returns a scratch directory that the user of the run can reach.
func newWorkDirFor(unpriv bool) string {
	if unpriv && unprivHow() == "setuid" {
		workSeq++
		d, err := os.MkdirTemp(unprivState.base, fmt.Sprintf("inj%d-", workSeq))
		if err == nil {
			return d
		}
	}
	return newWorkDir()
}

// unprivHow reports how the CLI can be run without root's exemption from permission bits.
func unprivHow() string {
	unprivState.once.Do(func() {
		pgv := os.Getenv("VERIF_PGV")
		if pgv == "" {
			return
		}
		if os.Geteuid() != 0 {
			unprivState.how = "native"
			return
		}
		// a copy of the binary in a directory below the system's temporary directory, which every user can
		// reach (the work directory of the driver may lie below a private one); created now, removed at exit
		base, err := os.MkdirTemp("/tmp", "verif-unpriv-")
		if err != nil {
			return
		}
		unprivState.base = base
		_ = os.Chmod(base, 0o755)
		bin, err := os.ReadFile(pgv)
		if err != nil || os.WriteFile(filepath.Join(base, "pgv"), bin, 0o755) != nil {
			return
		}
		unprivState.pgv = filepath.Join(base, "pgv")
		pgv = unprivState.pgv
		// probe: can the binary be executed as nobody?
		cmd := exec.Command(pgv, "-f", "/nonexistent/verif-probe.go")
		cmd.SysProcAttr = &syscall.SysProcAttr{Credential: &syscall.Credential{Uid: nobodyID, Gid: nobodyID}}
		if err := cmd.Run(); err == nil {
			unprivState.how = "setuid"
		} else if _, isExit := err.(*exec.ExitError); isExit {
			unprivState.how = "setuid" // it ran (and did not like the path)
		}
	})
	return unprivState.how
}

// runInjectorAs: with unpriv the CLI runs as an unprivileged user (if this process is root, as nobody).
func runInjectorAs(unpriv bool, mode, dir, path string) (output string, err error) {
	switch mode {
	case "lib":
		var areas interface{}
		var perr error
		if p := ev.Guard(func() {
			a, e := file.ParseFile(path)
			areas, perr = a, e
			if e == nil {
				perr = file.WriteFile(path, a)
			}
		}); p != nil {
			return "", fmt.Errorf("panic: %v", p)
		}
		_ = areas
		_ = perr // a parse error just means "not processed"
		return "", nil
	}
	pgv := os.Getenv("VERIF_PGV")
	if pgv == "" {
		return "", fmt.Errorf("VERIF_PGV not set")
	}
	var cmd *exec.Cmd
	argDir, runIn := dir, ""
	switch injectVia {
	case "rel":
		argDir, runIn = filepath.Base(dir), filepath.Dir(dir)
	case "rel-dot":
		argDir, runIn = "."+string(filepath.Separator)+filepath.Base(dir), filepath.Dir(dir)
	case "dotdot":
		if mode == "cli-p" || mode == "cli-p-glob" {
			break // (filepath.Glob joins its matches lexically: <link>/../x.go names another file; the pattern is the user's own)
		}
		inner := filepath.Join(dir, ".verif-inner")
		link := dir + ".lnk"
		_ = os.Mkdir(inner, 0o755)
		_ = os.Remove(link)
		if err := os.Symlink(inner, link); err == nil {
			defer os.Remove(link)
			argDir = link + string(filepath.Separator) + ".."
		}
	}
	sep := string(filepath.Separator)
	switch mode {
	case "cli-f":
		cmd = exec.Command(pgv, "-f", argDir+sep+filepath.Base(path))
	case "cli-d":
		cmd = exec.Command(pgv, "-d", argDir)
	case "cli-p":
		cmd = exec.Command(pgv, "-p", argDir+sep+"*.go")
	case "cli-p-glob": // path is a glob relative to dir
		cmd = exec.Command(pgv, "-p", argDir+sep+path)
	default:
		return "", fmt.Errorf("bad mode %s", mode)
	}
	cmd.Dir = runIn
	if unpriv && unprivHow() == "setuid" {
		cmd.Path, cmd.Args[0] = unprivState.pgv, unprivState.pgv
		cmd.SysProcAttr = &syscall.SysProcAttr{Credential: &syscall.Credential{Uid: nobodyID, Gid: nobodyID}}
	}
	var out bytes.Buffer
	cmd.Stdout, cmd.Stderr = &out, &out
	runErr := cmd.Run()
	o := out.String()
	if strings.Contains(o, "panic:") || strings.Contains(o, "goroutine ") {
		return o, fmt.Errorf("the CLI crashed: %s", tail(o, 600))
	}
	if runErr != nil {
		return o, &exitError{fmt.Sprintf("the CLI exited with %v: %s", runErr, tail(o, 400))}
	}
	return o, nil
}

// exitError: the CLI ended with a non-zero status without the signature of a crash.
type exitError struct{ msg string }

func (e *exitError) Error() string { return e.msg }

func tail(s string, n int) string {
	if len(s) > n {
		return s[len(s)-n:]
	}
	return s
}

func haveCLI() bool { return os.Getenv("VERIF_PGV") != "" }

// verifyInjected checks the processed text against the model.
func verifyInjected(in string, spans []Span, out string) string {
	pos := 0 // position in out
	prev := 0
	for i, sp := range spans {
		seg := in[prev:sp.Start]
		if !strings.HasPrefix(out[min(pos, len(out)):], seg) {
			return fmt.Sprintf("bytes before the tag literal of annotated field #%d changed: %s", i, firstDiff(seg, out[min(pos, len(out)):]))
		}
		pos += len(seg)
		if pos >= len(out) || out[pos] != '`' {
			return fmt.Sprintf("annotated field #%d: tag literal does not start where it did", i)
		}
		end := strings.IndexByte(out[pos+1:], '`')
		if end < 0 {
			return fmt.Sprintf("annotated field #%d: unterminated tag literal in the output", i)
		}
		lit := out[pos+1 : pos+1+end]
		pos += end + 2
		prev = sp.End
		want := mergeTags(sp.Field.Tag, sp.Field.Inject)
		got, ok := scanTag(lit)
		if !ok {
			return fmt.Sprintf("annotated field #%d: output literal `%s` is not in key:\"value\" form (want %v)", i, lit, want)
		}
		if !reflect.DeepEqual(got, want) && !(len(got) == 0 && len(want) == 0) {
			return fmt.Sprintf("annotated field #%d: output literal `%s` holds %v, want %v (old %v + injected %v)", i, lit, got, want, sp.Field.Tag, sp.Field.Inject)
		}
		// the conventional reader agrees for every injected key
		st := reflect.StructTag(lit)
		for _, inj := range sp.Field.Inject {
			if strings.Contains(lit, "\\") {
				continue // reflect.StructTag treats a backslash as an escape: only the plain scanner applies
			}
			if v, ok := st.Lookup(inj.K); !ok || v != inj.V {
				return fmt.Sprintf("annotated field #%d: reflect.StructTag(`%s`).Lookup(%q) = %q,%v want %q", i, lit, inj.K, v, ok, inj.V)
			}
		}
	}
	rest := in[prev:]
	if out[min(pos, len(out)):] != rest {
		return fmt.Sprintf("bytes after the last annotated tag literal changed: %s", firstDiff(rest, out[min(pos, len(out)):]))
	}
	return ""
}

func min(a, b int) int {
	if a < b {
		return a
	}
	return b
}

func firstDiff(want, got string) string {
	n := 0
	for n < len(want) && n < len(got) && want[n] == got[n] {
		n++
	}
	lo := n - 30
	if lo < 0 {
		lo = 0
	}
	return fmt.Sprintf("at offset %d: want ...%q, got ...%q", n, want[lo:min(len(want), n+40)], got[lo:min(len(got), n+40)])
}

// sameDeclarations: the output parses and, with tag literals blanked, has the same AST as the input.
func sameDeclarations(in, out string) string {
	strip := func(src string) (string, error) {
		fs := token.NewFileSet()
		f, err := parser.ParseFile(fs, "x.go", src, parser.ParseComments)
		if err != nil {
			return "", err
		}
		ast.Inspect(f, func(n ast.Node) bool {
			if fld, ok := n.(*ast.Field); ok && fld.Tag != nil {
				fld.Tag.Value = "``"
			}
			return true
		})
		var b bytes.Buffer
		_ = ast.Fprint(&b, nil, f.Decls, func(name string, v reflect.Value) bool {
			return ast.NotNilFilter(name, v) && !strings.HasSuffix(name, "Pos") && name != "Lbrace" && name != "Rbrace" && name != "Opening" && name != "Closing" &&
				name != "Slash" && name != "Lparen" && name != "Rparen" && name != "Struct" && name != "Func" && name != "Map" && name != "Interface" && name != "Star" &&
				name != "Arrow" && name != "Begin" && name != "Assign" && name != "Ellipsis" && name != "TokPos" && name != "Colon" && name != "Lbrack" && name != "Rbrack" && name != "Return" && name != "Obj"
		})
		return b.String(), nil
	}
	a, err := strip(in)
	if err != nil {
		return "" // the input itself does not parse: not this check's business
	}
	b, err := strip(out)
	if err != nil {
		return fmt.Sprintf("the output no longer parses: %v", err)
	}
	if a != b {
		return "the output parses to different declarations: " + firstDiff(a, b)
	}
	return ""
}

func checkInject(c *InjectCase) string {
	top := newWorkDir()
	defer os.RemoveAll(top)
	dir, err := workSub(top, c.Sub)
	if err != nil {
		return "harness: " + err.Error()
	}
	in, spans := c.File.Render()
	path := filepath.Join(dir, c.File.Name)
	if err := os.WriteFile(path, []byte(in), 0o644); err != nil {
		return "harness: " + err.Error()
	}
	injectVia = c.Via
	defer func() { injectVia = "" }()
	if _, err := runInjector(c.Mode, dir, path); err != nil {
		return err.Error()
	}
	outB, err := os.ReadFile(path)
	if err != nil {
		return "harness: " + err.Error()
	}
	out := string(outB)
	if m := verifyInjected(in, spans, out); m != "" {
		return m
	}
	return sameDeclarations(in, out)
}

func genInjectCase(t *rapid.T) *InjectCase {
	f := genSrcFile(t, rapid.SampledFrom([]string{"a.pb.go", "msg.go", "x_y.pb.go"}).Draw(t, "fname"), rapid.IntRange(0, 3).Draw(t, "minAnnotated"))
	c := &InjectCase{File: *f, Mode: "lib"}
	if haveCLI() && rapid.IntRange(0, 9).Draw(t, "useCLI") == 0 {
		c.Mode = rapid.SampledFrom([]string{"cli-f", "cli-d", "cli-p"}).Draw(t, "cliMode")
	}
	c.Sub = genDirName(t, c.Mode == "cli-p")
	if strings.HasPrefix(c.Mode, "cli-") {
		c.Via = rapid.SampledFrom(injectVias).Draw(t, "via")
	}
	return c
}

func TestC06(t *testing.T) {
	rapid.Check(t, func(t *rapid.T) {
		c := genInjectCase(t)
		n, ov, na := c.File.Annotated()
		ev.Class(fmt.Sprintf("annotated-fields=%s", bucket(n)))
		ev.Class("mode=" + c.Mode)
		if c.Sub != "" {
			ev.Class("directory-name=" + c.Sub)
		}
		if c.Via != "" {
			ev.Class("path-given-as=" + c.Via)
		}
		if ov {
			ev.Class("overrides-existing-key")
		}
		if na {
			ev.Class("non-ascii-before-annotated-field")
		}
		if c.File.Ragged {
			ev.Class("irregular-whitespace")
		}
		if c.File.CRLF {
			ev.Class("crlf")
		}
		b, _ := jsonMarshal(c)
		ev.Case(string(b), n >= 2 || (n >= 1 && (ov || na)), func() interface{} { return c })
		if msg := checkInject(c); msg != "" {
			ev.Fail(t, "C06", "inject", c, "%s", msg)
		}
	})
}

func TestC06Replay(t *testing.T) {
	for _, f := range ev.ReplayFiles() {
		rp, err := ev.LoadReplay(f)
		if err != nil {
			t.Fatalf("replay %s: %v", f, err)
		}
		ev.Class("replayed")
		var c InjectCase
		if err := jsonUnmarshal(rp.Case, &c); err != nil {
			t.Fatalf("replay %s: %v", f, err)
		}
		if !haveCLI() && c.Mode != "lib" {
			c.Mode = "lib"
		}
		if msg := checkInject(&c); msg != "" {
			ev.Fail(t, "C06", "inject", &c, "%s (replay %s)", msg, f)
		}
	}
}
