package harness

import (
	"fmt"
	"os"
	"path/filepath"
	"testing"

	"pgregory.net/rapid"

	"verifharness/ev"
)

// ---- C07: tag injection is idempotent ----

func injectModes() []string {
	if haveCLI() {
		return []string{"lib", "lib", "cli-f", "cli-d", "cli-p"}
	}
	return []string{"lib"}
}

// checkIdempotent runs the injector len(Hist) times; the bytes after run 1 must
// be the bytes after every later run, and a file without @tag annotation must
// keep its original bytes.
func checkIdempotent(c *InjectCase) string {
	top := newWorkDir()
	defer os.RemoveAll(top)
	dir, err := workSub(top, c.Sub)
	if err != nil {
		return "harness: " + err.Error()
	}
	in, spans := c.File.Render()
	path := filepath.Join(dir, c.File.Name)
	if err := os.WriteFile(path, []byte(in), 0o644); err != nil {
		return "harness: " + err.Error()
	}
	injectVia = c.Via
	defer func() { injectVia = "" }()
	var first string
	for i, mode := range c.Hist {
		if _, err := runInjector(mode, dir, path); err != nil {
			return fmt.Sprintf("run %d (%s): %v", i+1, mode, err)
		}
		b, err := os.ReadFile(path)
		if err != nil {
			return "harness: " + err.Error()
		}
		if i == 0 {
			first = string(b)
			if len(spans) == 0 && !anyAtTag(&c.File) && first != in {
				return fmt.Sprintf("a file without any @tag annotation was changed by run 1 (%s): %s", mode, firstDiff(in, first))
			}
			continue
		}
		if string(b) != first {
			return fmt.Sprintf("run %d (%s) changed the file again: %s", i+1, mode, firstDiff(first, string(b)))
		}
	}
	return ""
}

func anyAtTag(f *SrcFile) bool {
	for _, d := range f.Decls {
		for _, fl := range d.Fields {
			if fl.AtTag {
				return true
			}
		}
	}
	return false
}

func TestC07(t *testing.T) {
	rapid.Check(t, func(t *rapid.T) {
		f := genSrcFile(t, "m.pb.go", rapid.IntRange(0, 2).Draw(t, "minAnnotated"))
		if rapid.IntRange(0, 4).Draw(t, "repeatedKey") == 3 {
			// one @tag comment names a key twice (what that means for the merge is C06's business and not
			// defined there; whatever run 1 makes of it, run 2 has nothing left to do)
			for di := range f.Decls {
				for fi := range f.Decls[di].Fields {
					fl := &f.Decls[di].Fields[fi]
					if fl.AtTag && len(fl.Inject) > 0 && len(fl.Inject) < 60 && rapid.Bool().Draw(t, "repeatHere") {
						again := fl.Inject[rapid.IntRange(0, len(fl.Inject)-1).Draw(t, "repeatIdx")]
						again.V = rapid.SampledFrom([]string{"to=1~3", "again", again.V}).Draw(t, "repeatVal")
						fl.Inject = append(fl.Inject, again)
						ev.Class("an @tag comment that names a key twice")
					}
				}
			}
		}
		c := &InjectCase{File: *f}
		n := rapid.IntRange(1, 4).Draw(t, "runs")
		for i := 0; i < n; i++ {
			c.Hist = append(c.Hist, rapid.SampledFrom(injectModes()).Draw(t, "entry"))
		}
		withGlob := false
		for _, m := range c.Hist {
			withGlob = withGlob || m == "cli-p"
		}
		c.Sub = genDirName(t, withGlob)
		c.Via = rapid.SampledFrom(injectVias).Draw(t, "via")
		if c.Via != "" {
			ev.Class("path-given-as=" + c.Via)
		}
		if c.Sub != "" {
			ev.Class("directory-name=" + c.Sub)
		}
		na, ov, _ := c.File.Annotated()
		ev.Class(fmt.Sprintf("runs=%d", n))
		ev.Class(fmt.Sprintf("annotated-fields=%s", bucket(na)))
		for _, m := range c.Hist {
			ev.Class("entry=" + m)
		}
		b, _ := jsonMarshal(c)
		ev.Case(string(b), n >= 2 && na >= 1 && ov, func() interface{} { return c })
		if msg := checkIdempotent(c); msg != "" {
			ev.Fail(t, "C07", "idempotent", c, "%s", msg)
		}
	})
}

func TestC07Replay(t *testing.T) {
	for _, f := range ev.ReplayFiles() {
		rp, err := ev.LoadReplay(f)
		if err != nil {
			t.Fatalf("replay %s: %v", f, err)
		}
		ev.Class("replayed")
		var c InjectCase
		if err := jsonUnmarshal(rp.Case, &c); err != nil {
			t.Fatalf("replay %s: %v", f, err)
		}
		if !haveCLI() {
			for i := range c.Hist {
				c.Hist[i] = "lib"
			}
		}
		if msg := checkIdempotent(&c); msg != "" {
			ev.Fail(t, "C07", "idempotent", &c, "%s (replay %s)", msg, f)
		}
	}
}
