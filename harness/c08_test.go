package harness

import (
	"encoding/json"
	"fmt"
	"strings"
	"sync/atomic"
	"testing"

	"gitee.com/xuesongtao/protoc-go-valid/valid"
	"pgregory.net/rapid"

	"verifharness/desc"
	"verifharness/ev"
)

// ---- C08: the struct-type cache is transparent ----
//
// A history of validation calls over more distinct struct types than the cache
// holds, each type carrying rule sets for up to three tag names, is executed
// under every cache configuration.  Oracles:
//   (1) every call is repeated at once with the proxy's backend swapped to a
//       cache that forgets everything (no history by construction): the two
//       results must be identical;
//   (2) the first result must equal the reference walker's prediction for the
//       requested tag name (independent of any cache);
//   (3) the result of call i must be the same under every configuration.

// C08Fill validates N bank types (a fixed family of >700 distinct struct types)
// to churn the cache.
type C08Fill struct {
	From int    `json:"from"`
	N    int    `json:"n"`
	Tag  string `json:"tag"`
}

// C08Op is one step of a history.
type C08Op struct {
	Call *Call    `json:"call,omitempty"`
	Fill *C08Fill `json:"fill,omitempty"`
	// Reg registers a global function (SetCustomerValidFn) in the middle of the
	// history under a placeholder name (LATE1, LATE2) that rule texts of the
	// history may use: before this step the name is unknown, afterwards it
	// resolves to the function - also for types analysed (and cached) earlier.
	// Every execution (and every cache configuration) replaces the placeholders
	// by names never used before, because registrations cannot be undone.
	Reg string `json:"reg,omitempty"`
	// Wide: one call on a struct whose fields point to Wide.N distinct bank types (more than the default cache holds)
	Wide *C08Fill `json:"wide,omitempty"`
}

var lateCounter int

// instantiate returns a copy of the history in which the placeholder names are
// replaced by fresh ones, and the placeholder -> name mapping.
func (c *C08Case) instantiate() (*C08Case, map[string]string) {
	b, _ := json.Marshal(c)
	if !strings.Contains(string(b), "LATE") {
		return c, nil
	}
	lateCounter++
	names := map[string]string{"LATE1": fmt.Sprintf("late%dx", lateCounter), "LATE2": fmt.Sprintf("late%dy", lateCounter)}
	txt := string(b)
	for ph, n := range names {
		txt = strings.ReplaceAll(txt, ph, n)
	}
	var out C08Case
	if err := json.Unmarshal([]byte(txt), &out); err != nil {
		panic(err)
	}
	return &out, names
}

// unname maps the fresh names in an outcome back to the placeholders (to compare runs).
func unname(o outcome, names map[string]string) outcome {
	for ph, n := range names {
		o.Text = strings.ReplaceAll(o.Text, n, ph)
	}
	return o
}

type c08Step struct {
	call *Call
	reg  string
}

// C08Case is a history plus the cache configurations it runs under.
type C08Case struct {
	Ops     []C08Op  `json:"ops"`
	Configs []string `json:"configs"`
}

var c08Configs = []string{"lru0", "lru1", "lru2", "lru3", "lru8", "lru512", "syncmap", "miss"}

const bankSize = 720

// bankType is type #i of the bank: two fields, three tag names, rules that
// depend on i (so all types are distinct and each tag name judges differently).
// bankTags: the bank types carry rule sets under twelve tag names, and under ten pairs of names
// that collide under common 32-bit string hashes (collide_test.go).
var bankTags = append([]string{"valid", "alipay", "wechat", "t3", "t4", "t5", "t6", "t7", "t8", "t9", "t10", "t11"}, collidingTags()...)

func bankType(i int) desc.T {
	ty := bankType3(i)
	for j := 3; j < len(bankTags); j++ {
		ty.Fields[0].Tags[bankTags[j]] = fmt.Sprintf("to=%d~%d|%sA%d", 1+(i+j)%4, 2+(i+j)%4+j%3, bankTags[j], i)
		ty.Fields[1].Tags[bankTags[j]] = fmt.Sprintf("ge=%d|%sB%d", (i+j)%6, bankTags[j], i)
	}
	return ty
}

func bankType3(i int) desc.T {
	return desc.T{K: "struct", Fields: []desc.F{
		{Name: "A", T: desc.Scalar("string"), Tags: map[string]string{
			"valid":  fmt.Sprintf("to=%d~%d|bankA%d", 1+i%4, 2+i%4+i%3, i),
			"alipay": fmt.Sprintf("ge=%d|alipayA%d", 1+i%5, i),
			"wechat": fmt.Sprintf("required,prefix=a|wechatA%d", i),
		}},
		{Name: "B", T: desc.Scalar("int"), Tags: map[string]string{
			"valid":  fmt.Sprintf("le=%d|bankB%d", i%7, i),
			"alipay": fmt.Sprintf("in=(1/2/%d)|alipayB%d", i%9, i),
			"wechat": fmt.Sprintf("gt=%d", i%5),
		}},
	}}
}

// wideBankCall validates, in ONE call, a struct whose fields are pointers to n distinct bank
// types (more than the default cache holds) followed by scalar fields with rules of its own:
// the cache entry of the outer type is evicted while the call is still using it.
func wideBankCall(from, n int) *Call {
	ty := desc.T{K: "struct"}
	val := desc.V{}
	for i := 0; i < n; i++ {
		bt := bankType((from + i) % bankSize)
		ty.Fields = append(ty.Fields, desc.F{Name: fmt.Sprintf("N%03d", i), T: desc.Ptr(bt), Tags: map[string]string{"valid": "required"}})
		val.E = append(val.E, desc.V{E: []desc.V{{E: []desc.V{desc.Str(strPool[(i*5)%7]), {I: int64((i*7)%9 - 1)}}}}})
	}
	for j := 0; j < 3; j++ {
		ty.Fields = append(ty.Fields, desc.F{Name: fmt.Sprintf("Z%d", j), T: desc.Scalar("string"), Tags: map[string]string{"valid": fmt.Sprintf("required|tail %d,to=2~3", j)}})
		val.E = append(val.E, desc.Str([]string{"", "abcdef", "ab"}[j]))
	}
	return &Call{S: &StructCase{Root: desc.Ptr(ty), Val: desc.V{E: []desc.V{val}}, Entry: "Struct"}}
}

func bankCall(i int, tag string) *Call {
	ty := bankType(i % bankSize)
	c := &StructCase{Root: desc.Ptr(ty), Entry: "ValidateStruct",
		Val: desc.V{E: []desc.V{{E: []desc.V{desc.Str(strPool[(i*5+len(tag))%len(strPool)]), {I: int64((i*7)%9 - 1)}}}}}}
	if tag != "valid" {
		c.Tag = tag
	}
	return &Call{S: c}
}

// backendFor builds a fresh cache of the named configuration; evictions of LRU
// backends are counted through the exported delete callback.
func backendFor(cfg string, evictions *int64) valid.CacheEr {
	var capacity int
	switch cfg {
	case "miss":
		return missCache{}
	case "syncmap":
		return &syncMapCache{}
	case "lru0":
		capacity = 0
	case "lru1":
		capacity = 1
	case "lru2":
		capacity = 2
	case "lru3":
		capacity = 3
	case "lru8":
		capacity = 8
	case "lru512":
		capacity = 512
	default:
		panic("bad cache config " + cfg)
	}
	l := valid.NewLRU(capacity)
	l.SetDelCallBackFn(func(_, _ interface{}) { atomic.AddInt64(evictions, 1) })
	return l
}

type c08Facts struct {
	lateRegs        int  // global registrations performed in the middle of histories
	otherTagEarlier bool // a call on a type validated earlier under a different tag name
	reanalysed      bool // a (type, tag) seen before had to be analysed again (evicted meanwhile)
	hits            int64
	evictions       int64
	calls           int
}

func (f c08Facts) nontrivial() bool { return f.otherTagEarlier || f.reanalysed }

// flatten expands fills into calls.
func (c *C08Case) flatten() []c08Step {
	var out []c08Step
	for _, op := range c.Ops {
		if op.Call != nil {
			out = append(out, c08Step{call: op.Call})
		}
		if op.Fill != nil {
			for i := 0; i < op.Fill.N; i++ {
				out = append(out, c08Step{call: bankCall(op.Fill.From+i, op.Fill.Tag)})
			}
		}
		if op.Reg != "" {
			out = append(out, c08Step{reg: op.Reg})
		}
		if op.Wide != nil {
			out = append(out, c08Step{call: wideBankCall(op.Wide.From, op.Wide.N)})
		}
	}
	return out
}

// register performs a late global registration (and tells the model).
func register(name string) {
	valid.SetCustomerValidFn(name, customFn("global", name))
	globalFnNames[name] = true
}

// checkC08 runs the history under every configuration.
func checkC08(c *C08Case) (string, c08Facts) {
	var facts c08Facts
	facts.calls = len(c.flatten())
	type pred struct {
		unordered bool
		first     outcome
	}
	preds := make([]pred, facts.calls)
	for ci, cfg := range c.Configs {
		var evictions int64
		backend := backendFor(cfg, &evictions)
		proxy.set(backend)
		proxy.count = true
		seen := map[string]map[string]bool{} // type -> tags validated so far under this backend
		for k := range rmSlots {             // rule-map objects live as long as one history
			delete(rmSlots, k)
		}
		inst, names := c.instantiate() // fresh names for late registrations, per configuration
		for i, step := range inst.flatten() {
			if step.reg != "" {
				register(step.reg)
				facts.lateRegs++
				continue
			}
			call := step.call
			tk, tag := call.typeKey(), "-"
			if call.S != nil {
				tag = call.S.tagName()
			}
			storesBefore, hitsBefore := atomic.LoadInt64(&proxy.stores), atomic.LoadInt64(&proxy.hits)
			o1 := call.prepare().run()
			stored := atomic.LoadInt64(&proxy.stores) > storesBefore
			facts.hits += atomic.LoadInt64(&proxy.hits) - hitsBefore
			if call.S != nil {
				if tags := seen[tk]; tags != nil {
					if !tags[tag] {
						facts.otherTagEarlier = true
					} else if stored && cfg != "miss" {
						facts.reanalysed = true
					}
				} else {
					seen[tk] = map[string]bool{}
				}
				seen[tk][tag] = true
			}
			// (1) the same call with a cache that has no history
			proxy.set(missCache{})
			o2 := call.prepare().run()
			proxy.set(backend)
			if ci == 0 {
				res, unordered := call.predict()
				preds[i] = pred{unordered: unordered, first: unname(o1, names)}
				// (2) independent prediction for the requested tag name
				if m := call.againstModel(res, o2); m != "" {
					proxy.count = false
					return fmt.Sprintf("call %d (%s, tag %s) with an always-miss cache disagrees with the reference walker: %s", i, shortType(tk), tag, m), facts
				}
			}
			if !sameOutcome(o1, o2, preds[i].unordered) {
				proxy.count = false
				return fmt.Sprintf("cache %s, call %d (type %s, tag %s): result %v differs from the result with an always-miss cache %v", cfg, i, shortType(tk), tag, o1, o2), facts
			}
			// (3) across configurations
			if !sameOutcome(unname(o1, names), preds[i].first, preds[i].unordered) {
				proxy.count = false
				return fmt.Sprintf("call %d (type %s, tag %s): cache %s gives %v, cache %s gave %v", i, shortType(tk), tag, cfg, o1, c.Configs[0], preds[i].first), facts
			}
		}
		facts.evictions += atomic.LoadInt64(&evictions)
	}
	proxy.count = false
	return "", facts
}

func shortType(k string) string {
	if len(k) > 60 {
		return k[:57] + "..."
	}
	return k
}

type c08Pool struct {
	g  *structGen
	ty desc.T
}

func genC08Case(t *rapid.T) *C08Case {
	mg := &msgGen{mode: 3}
	c := &C08Case{Configs: c08Configs}
	n := rapid.IntRange(2, 9).Draw(t, "nTypes")
	var pool []c08Pool
	for i := 0; i < n; i++ {
		g, ty := genMultiTagType(t, mg, rapid.IntRange(0, 2).Draw(t, "depth"))
		pool = append(pool, c08Pool{g, ty})
	}
	// a TAG that names a rule only some calls define (cfn1): calls that bring the function and plain calls - for which
	// the name is unknown - meet the same cached analysis of the type, in either order
	tagFn := map[int]bool{}
	for i := range pool {
		if rapid.IntRange(0, 3).Draw(t, "tagFn") != 0 {
			continue
		}
		tagFn[i] = addTagFn(&pool[i].ty)
	}
	newCall := func() *Call {
		var s *StructCase
		if rapid.IntRange(0, 7).Draw(t, "useMulti") == 0 {
			// the named type with three rule sets
			s = &StructCase{Root: desc.Ptr(desc.Named("Multi")), Val: desc.V{E: []desc.V{{E: []desc.V{
				desc.Str(rapid.SampledFrom([]string{"", "a", "abcd", "abcdefg", "13812345678"}).Draw(t, "mA")),
				{I: int64(rapid.IntRange(0, 12).Draw(t, "mB"))},
				desc.Str(rapid.SampledFrom([]string{"", "ab", "13812345678", "abcdef"}).Draw(t, "mC"))}}}}}
		} else {
			pi := rapid.IntRange(0, len(pool)-1).Draw(t, "type")
			p := pool[pi]
			s = &StructCase{}
			if tagFn[pi] {
				ev.Class("calls on a type whose tag names a rule only some calls define")
			}
			if tagFn[pi] && rapid.Bool().Draw(t, "bringTagFn") {
				s.CallFns = []string{"cfn1"}
			}
			switch rapid.IntRange(0, 7).Draw(t, "top") {
			case 0:
				s.Root, s.Val = p.ty, p.g.genValueFor(p.ty, 0)
			case 1:
				s.Root = desc.Map(desc.Scalar("int"), p.ty)
				s.Val = p.g.genValueFor(s.Root, 0)
			default:
				s.Root, s.Val = desc.Ptr(p.ty), desc.V{E: []desc.V{p.g.genValueFor(p.ty, 0)}}
			}
			if rapid.IntRange(0, 3).Draw(t, "override") == 0 {
				s.Unscoped = genOverride(t, p.ty, mg)
				if rapid.IntRange(0, 3).Draw(t, "callFn") == 0 && len(s.Unscoped) > 0 {
					fn := rapid.SampledFrom([]string{"cfn1", "cfn1", "reenter"}).Draw(t, "callFnName") // (reenter: validates another object of the type from inside the validation)
					s.CallFns = []string{fn}
					for _, f := range p.ty.Fields {
						if _, ok := s.Unscoped[f.Name]; ok {
							s.Unscoped[f.Name] += "," + fn
							break
						}
					}
				}
			}
		}
		if tag := rapid.SampledFrom(callTags).Draw(t, "tag"); tag != "valid" {
			s.Tag = tag
		}
		if rapid.IntRange(0, 9).Draw(t, "emptyTagName") == 0 {
			s.Tag = emptyTag // an explicitly empty tag name: no tag rules, only the rule sets of the call
		}
		s.pickEntry(rapid.IntRange(0, 7).Draw(t, "entry"))
		return &Call{S: s}
	}
	// late global registration: a rule name that is unknown at first and gets registered in
	// the middle of the history; it sits in a TAG (so it is part of the cached analysis)
	late := ""
	if rapid.IntRange(0, 3).Draw(t, "lateReg") == 0 {
		late = rapid.SampledFrom([]string{"LATE1", "LATE2"}).Draw(t, "lateName")
		p := &pool[rapid.IntRange(0, len(pool)-1).Draw(t, "lateType")]
		for i := range p.ty.Fields {
			f := &p.ty.Fields[i]
			if desc.Exported(f.Name) && f.T.Elem == nil && f.T.K != "struct" && f.T.K != "time" {
				if f.Tags == nil {
					f.Tags = map[string]string{}
				}
				tg := rapid.SampledFrom(multiTags).Draw(t, "lateTag")
				if f.Tags[tg] == "" {
					f.Tags[tg] = late
				} else {
					f.Tags[tg] += "," + late
				}
				break
			}
		}
	}
	nOps := rapid.IntRange(4, ev.Pick(40, 80)).Draw(t, "nOps")
	regAt := rapid.IntRange(1, nOps-1).Draw(t, "regAt")
	wideAt := -1
	if rapid.IntRange(0, 14).Draw(t, "wideCall") == 0 {
		wideAt = rapid.IntRange(0, nOps-1).Draw(t, "wideAt")
	}
	if rapid.IntRange(0, 24).Draw(t, "manyTagNames") == 12 {
		// hundreds of tag names in one process (every framework brings its own): one bank type under "valid"
		// (which has rules for it), then under 300 names it carries nothing for, then under "valid" again
		one := rapid.IntRange(0, bankSize-1).Draw(t, "manyFrom")
		c.Ops = append(c.Ops, C08Op{Fill: &C08Fill{From: one, N: 1, Tag: "valid"}})
		for j := 0; j < 300; j++ {
			c.Ops = append(c.Ops, C08Op{Fill: &C08Fill{From: one, N: 1, Tag: fmt.Sprintf("j%03d", j)}})
		}
		c.Ops = append(c.Ops, C08Op{Fill: &C08Fill{From: one, N: 1, Tag: "valid"}})
	}
	var made []*Call
	for i := 0; i < nOps; i++ {
		if late != "" && i == regAt {
			c.Ops = append(c.Ops, C08Op{Reg: late})
		}
		if i == wideAt {
			c.Ops = append(c.Ops, C08Op{Wide: &C08Fill{From: rapid.IntRange(0, bankSize-1).Draw(t, "wideFrom"), N: rapid.IntRange(514, 540).Draw(t, "wideN")}})
			continue
		}
		switch k := rapid.IntRange(0, 19).Draw(t, "op"); {
		case k <= 2 && len(made) > 0: // the same call again
			c.Ops = append(c.Ops, C08Op{Call: made[rapid.IntRange(0, len(made)-1).Draw(t, "again")]})
		case k <= 5 && len(made) > 0: // the same value and type under another tag name
			src := made[rapid.IntRange(0, len(made)-1).Draw(t, "retag")]
			cp := *src.S
			cp.Tag = rapid.SampledFrom([]string{"", "alipay", "wechat", emptyTag, "Valid"}).Draw(t, "newTag")
			cp.pickEntry(rapid.IntRange(0, 7).Draw(t, "entry2"))
			nc := &Call{S: &cp}
			made = append(made, nc)
			c.Ops = append(c.Ops, C08Op{Call: nc})
		case k == 6 && len(made) > 0: // the same call with its rule-map OBJECT reused and one rule edited in place
			src := made[rapid.IntRange(0, len(made)-1).Draw(t, "reuseRM")]
			if len(src.S.Unscoped) == 0 {
				c.Ops = append(c.Ops, C08Op{Call: src})
				break
			}
			if src.S.RMSlot == "" {
				src.S.RMSlot = fmt.Sprintf("slot%d", len(made))
			}
			cp := *src.S
			cp.Unscoped = map[string]string{}
			edited := false
			for _, k := range sortedKeys(src.S.Unscoped) {
				cp.Unscoped[k] = src.S.Unscoped[k]
				if !edited && !strings.Contains(cp.Unscoped[k], "cfn1") {
					cp.Unscoped[k] = rapid.SampledFrom([]string{"required|edited", "to=1~1|edited", "noeq=0|edited", "in=(zz)|edited"}).Draw(t, "editedRule")
					edited = true
				}
			}
			nc := &Call{S: &cp}
			made = append(made, nc)
			c.Ops = append(c.Ops, C08Op{Call: nc})
		case k <= 8:
			f := &C08Fill{From: rapid.IntRange(0, bankSize-1).Draw(t, "from"), N: rapid.IntRange(1, 12).Draw(t, "fillN"), Tag: rapid.SampledFrom(bankTags).Draw(t, "fillTag")}
			if rapid.IntRange(0, 5).Draw(t, "allTags") == 0 {
				// one bank type under every tag name in turn, then again under the first ones
				one := f.From
				for _, tg := range append(append([]string{}, bankTags...), bankTags[:7]...) {
					c.Ops = append(c.Ops, C08Op{Fill: &C08Fill{From: one, N: 1, Tag: tg}})
				}
			}
			if rapid.IntRange(0, 19).Draw(t, "bigFill") == 19 {
				f.N = rapid.IntRange(513, 600).Draw(t, "bigN") // more than the default capacity
			}
			c.Ops = append(c.Ops, C08Op{Fill: f})
		default:
			nc := newCall()
			made = append(made, nc)
			c.Ops = append(c.Ops, C08Op{Call: nc})
		}
	}
	return c
}

func TestC08(t *testing.T) {
	if !proxyInstalled {
		t.Skip("runs in the process that owns the proxy cache")
	}
	rapid.Check(t, func(t *rapid.T) {
		c := genC08Case(t)
		if rapid.IntRange(0, 3).Draw(t, "reentrant") == 1 {
			// a call whose per-call function validates another object of the same (cached) type from inside, once or twice in the history
			rc := &Call{S: genReenterCase(t)}
			for k := rapid.IntRange(1, 2).Draw(t, "reentrantN"); k > 0; k-- {
				at := rapid.IntRange(0, len(c.Ops)).Draw(t, "reentrantAt")
				c.Ops = append(c.Ops[:at:at], append([]C08Op{{Call: rc}}, c.Ops[at:]...)...)
			}
			ev.Class("validation-inside-a-validation (same cached type)")
		}
		msg, facts := checkC08(c)
		if facts.otherTagEarlier {
			ev.Class("type-seen-earlier-under-another-tag")
		}
		if facts.reanalysed {
			ev.Class("re-analysed-after-eviction")
		}
		ev.ClassN("cache-hits", facts.hits)
		ev.ClassN("lru-evictions", facts.evictions)
		ev.ClassN("calls", int64(facts.calls*len(c.Configs)*2))
		if facts.calls > 512 {
			ev.Class("history-exceeds-default-capacity")
		}
		if facts.lateRegs > 0 {
			ev.Class("global-function-registered-in-mid-history")
		}
		b, _ := json.Marshal(c.Ops)
		ev.Case(string(b), facts.nontrivial(), func() interface{} { return c08Sample(c) })
		if msg != "" {
			ev.Fail(t, "C08", "history", c, "%s", msg)
		}
	})
	ev.Extra("distinct_synthesised_types_in_process", desc.NTypes)
}

// c08Sample abbreviates a history for the evidence file.
func c08Sample(c *C08Case) interface{} {
	type step struct {
		Type string            `json:"type,omitempty"`
		Tag  string            `json:"tag,omitempty"`
		RM   map[string]string `json:"override,omitempty"`
		Fill *C08Fill          `json:"fill,omitempty"`
	}
	var steps []step
	for i, op := range c.Ops {
		if i >= 12 {
			break
		}
		if op.Fill != nil {
			steps = append(steps, step{Fill: op.Fill})
			continue
		}
		if op.Reg != "" {
			steps = append(steps, step{Type: "register global function " + op.Reg})
			continue
		}
		if op.Wide != nil {
			steps = append(steps, step{Type: fmt.Sprintf("one struct with %d distinct nested bank types", op.Wide.N)})
			continue
		}
		steps = append(steps, step{Type: shortType(op.Call.typeKey()), Tag: op.Call.S.tagName(), RM: op.Call.S.Unscoped})
	}
	return map[string]interface{}{"ops": len(c.Ops), "configs": c.Configs, "first_steps": steps}
}

// TestC08Default runs in a second process in which SetStructTypeCache is never
// called, i.e. against the genuine default cache object.  The backend cannot be
// swapped there, so the oracles are the reference walker and the requirement
// that the same call gives the same result wherever it occurs in the history
// (first sight, cached, after more than 512 other types).
func TestC08Default(t *testing.T) {
	if proxyInstalled {
		t.Skip("runs in the process that leaves the default cache in place")
	}
	rapid.Check(t, func(t *rapid.T) {
		c := genC08Case(t)
		// make sure the history exceeds the default capacity between repeats
		c.Ops = append(c.Ops, C08Op{Fill: &C08Fill{From: rapid.IntRange(0, bankSize-1).Draw(t, "from"), N: rapid.IntRange(513, 560).Draw(t, "n"), Tag: rapid.SampledFrom(multiTags).Draw(t, "ftag")}})
		if rapid.IntRange(0, 2).Draw(t, "manyTypesCall") == 1 {
			// one call over more struct types than the cache holds, nested or side by side, rules behind the descent
			mc := manyTypesCase(t)
			mc.Entry = "Struct"
			at := rapid.IntRange(0, len(c.Ops)).Draw(t, "manyAt")
			c.Ops = append(c.Ops[:at:at], append([]C08Op{{Call: &Call{S: mc}}}, c.Ops[at:]...)...)
			ev.Class("one call over more than 512 distinct struct types")
		}
		n := len(c.Ops) - 1
		for i := 0; i < n; i++ {
			if c.Ops[i].Call != nil {
				c.Ops = append(c.Ops, c.Ops[i])
			}
		}
		msg, nt := checkC08Default(c)
		ev.Class("default-cache-process")
		b, _ := json.Marshal(c.Ops)
		ev.Case("default:"+string(b), nt, func() interface{} { return c08Sample(c) })
		if msg != "" {
			ev.Fail(t, "C08", "default", c, "%s", msg)
		}
	})
}

func checkC08Default(c *C08Case) (string, bool) {
	first := map[string]outcome{}
	nt := false
	otherTag := map[string]string{}
	inst, _ := c.instantiate()
	for i, step := range inst.flatten() {
		if step.reg != "" {
			register(step.reg)
			// identical calls before and after a registration may legitimately differ
			first = map[string]outcome{}
			continue
		}
		call := step.call
		o := call.prepare().run()
		res, unordered := call.predict()
		if m := call.againstModel(res, o); m != "" {
			return fmt.Sprintf("default cache, call %d (tag %s): disagrees with the reference walker: %s", i, call.S.tagName(), m), nt
		}
		k := call.key()
		if prev, ok := first[k]; ok {
			nt = true
			if !sameOutcome(o, prev, unordered) {
				return fmt.Sprintf("default cache, call %d (tag %s): result %v, but the identical call earlier in the history gave %v", i, call.S.tagName(), o, prev), nt
			}
		} else {
			first[k] = o
		}
		if tg, ok := otherTag[call.typeKey()]; ok && tg != call.S.tagName() {
			nt = true
		}
		otherTag[call.typeKey()] = call.S.tagName()
	}
	return "", nt
}

func TestC08Replay(t *testing.T) {
	for _, f := range ev.ReplayFiles() {
		rp, err := ev.LoadReplay(f)
		if err != nil {
			t.Fatalf("replay %s: %v", f, err)
		}
		var c C08Case
		if err := json.Unmarshal(rp.Case, &c); err != nil {
			t.Fatalf("replay %s: %v", f, err)
		}
		if len(c.Configs) == 0 {
			c.Configs = c08Configs
		}
		ev.Class("replayed")
		var msg string
		if proxyInstalled {
			msg, _ = checkC08(&c)
		} else {
			msg, _ = checkC08Default(&c)
		}
		if msg != "" {
			ev.Fail(t, "C08", "replay", &c, "%s (replay %s)", msg, f)
		}
	}
}
