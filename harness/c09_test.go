package harness

import (
	"encoding/json"
	"fmt"
	"sort"
	"strings"
	"testing"
	"time"

	"gitee.com/xuesongtao/protoc-go-valid/valid"
	"pgregory.net/rapid"

	"verifharness/ev"
	"verifharness/model"
)

// ---- C09: the LRU cache behaves as a bounded least-recently-used map ----

// LRUOp is one operation: Kind ∈ S(tore) L(oad) D(elete) N(len).
type LRUOp struct {
	Kind string `json:"k"`
	Key  string `json:"key,omitempty"`
	Val  int    `json:"v,omitempty"`
	Nil  bool   `json:"nilval,omitempty"` // Store: the value is the nil interface (a legal value; the model records it as -1)
}

const nilMark = -1

// LRUCase is a whole sequential history on one cache.
type LRUCase struct {
	Cap      int     `json:"cap"`
	Callback bool    `json:"callback"`
	KeyKind  string  `json:"keykind"` // "string" | "int" | "struct"
	Ops      []LRUOp `json:"ops"`
	// ValKind: how the stored values are wrapped: "" = the int itself, "slice" = []int{v},
	// "map" = map[int]bool{v: true}, "boxed" = a struct with a slice field (values a cache holds are
	// often not comparable with ==, the library's own cached type information is of the last kind)
	ValKind string `json:"valkind,omitempty"`
}

type boxedVal struct {
	Name string
	S    []int
}

func lruWrap(kind string, v int) interface{} {
	switch kind {
	case "slice":
		return []int{v}
	case "map":
		return map[int]bool{v: true}
	case "boxed":
		return boxedVal{Name: "b", S: []int{v}}
	}
	return v
}

// lruUnwrap is the int inside a value handed back by the cache (false: not a value we stored).
func lruUnwrap(gv interface{}) (int, bool) {
	switch x := gv.(type) {
	case int:
		return x, true
	case []int:
		if len(x) == 1 {
			return x[0], true
		}
	case map[int]bool:
		for k := range x {
			if len(x) == 1 {
				return k, true
			}
		}
	case boxedVal:
		if len(x.S) == 1 && x.Name == "b" {
			return x.S[0], true
		}
	}
	return 0, false
}

type structKey2 struct {
	A interface{}
	B string
}

type structKey struct {
	A string
	B int
}

// lruKey materialises the descriptor key as a Go key of the requested kind.
func lruKey(kind, k string) interface{} {
	switch kind {
	case "int":
		n := 0
		for _, c := range k {
			n = n*131 + int(c)
		}
		return n
	case "struct":
		return structKey{A: k, B: len(k)}
	case "printalike":
		// distinct keys of one comparable type that PRINT alike (%v): the first two keys of the alphabet
		switch k {
		case "a", "k0":
			return [2]string{"a b", "c"}
		case "b", "k1":
			return [2]string{"a", "b c"}
		}
		return [2]string{k, ""}
	case "printalike-struct":
		switch k {
		case "a", "k0":
			return structKey2{A: "acme corp", B: "eu"}
		case "b", "k1":
			return structKey2{A: "acme", B: "corp eu"}
		case "c", "k2":
			return structKey2{A: 1, B: "x"}
		case "k3":
			return structKey2{A: "1", B: "x"}
		}
		return structKey2{A: k, B: ""}
	case "nilfirst":
		// the untyped nil interface is a legal map key: the first key of the alphabet is nil
		if k == "a" || k == "k0" {
			return nil
		}
	}
	return k
}

type lruStats struct {
	recencyDecisive bool
	overwrite       bool
	rebuildCross    bool
	cbSwitched      bool
	evictions       int
}

// checkLRUCase runs the history against the real cache and the model in
// lock-step.  It returns "" if they agree, else a description.
func checkLRUCase(c LRUCase) (string, lruStats) {
	var st lruStats
	cache := valid.NewLRU(c.Cap)
	m := &model.LRU{Cap: c.Cap}
	var cbLog []model.KV
	keyBack := map[interface{}]string{}
	logCb := func(k, v interface{}) {
		name, ok := keyBack[k]
		if !ok {
			name = fmt.Sprintf("?%v", k)
		}
		iv, isInt := lruUnwrap(v)
		if v == nil && !isInt {
			iv = nilMark
		}
		cbLog = append(cbLog, model.KV{K: name, V: iv})
	}
	cbOn := c.Callback
	if c.Callback {
		cache.SetDelCallBackFn(logCb)
	}
	var expLog []model.KV // the removals that happened while a callback was registered
	removals := 0
	used := map[string]bool{}
	for i, op := range c.Ops {
		gk := lruKey(c.KeyKind, op.Key)
		if op.Kind != "N" {
			keyBack[gk] = op.Key
			used[op.Key] = true
		}
		before := len(m.Removed)
		switch op.Kind {
		case "S":
			mv := op.Val
			if op.Nil {
				cache.Store(gk, nil)
				mv = nilMark
			} else {
				cache.Store(gk, lruWrap(c.ValKind, op.Val))
			}
			info := m.Store(op.Key, mv)
			if info.Overwrite {
				st.overwrite = true
			}
			if info.Evicted {
				st.evictions++
				if info.FIFOVictim != info.Victim.K {
					st.recencyDecisive = true
				}
			}
		case "L":
			gv, gok := cache.Load(gk)
			wv, wok := m.Load(op.Key)
			if gok != wok {
				return fmt.Sprintf("step %d Load(%s): hit=%v, model hit=%v", i, op.Key, gok, wok), st
			}
			if wok && wv == nilMark {
				if gv != nil {
					return fmt.Sprintf("step %d Load(%s): value %v, model: the nil value stored last", i, op.Key, gv), st
				}
			} else if wok {
				if iv, ok := lruUnwrap(gv); !ok || iv != wv {
					return fmt.Sprintf("step %d Load(%s): value %v, model %d (most recently stored)", i, op.Key, gv, wv), st
				}
			}
		case "D":
			cache.Delete(gk)
			m.Delete(op.Key)
		case "C":
			// the callback is switched off (nil, the state of a fresh cache) or on (again)
			if op.Val == 0 {
				cache.SetDelCallBackFn(nil)
				cbOn = false
			} else if op.Val == 2 {
				// a one-shot handler: it reports the removal and installs the ordinary callback from
				// inside the callback (SetDelCallBackFn is the one method a callback can call)
				cache.SetDelCallBackFn(func(k, v interface{}) {
					logCb(k, v)
					cache.SetDelCallBackFn(logCb)
				})
				cbOn = true
			} else {
				cache.SetDelCallBackFn(logCb)
				cbOn = true
			}
			st.cbSwitched = true
		case "N":
		}
		if cbOn {
			expLog = append(expLog, m.Removed[before:]...)
		}
		removals += len(m.Removed) - before
		if c.Cap >= 0 && removals > 2*c.Cap+1 {
			st.rebuildCross = true
		}
		// invariants after every step
		n := cache.Len()
		if n != m.Len() {
			return fmt.Sprintf("step %d (%s %s): Len=%d, model %d", i, op.Kind, op.Key, n, m.Len()), st
		}
		if n > c.Cap {
			return fmt.Sprintf("step %d: Len=%d exceeds capacity %d", i, n, c.Cap), st
		}
		if c.Callback || st.cbSwitched {
			if len(cbLog) != len(expLog) {
				return fmt.Sprintf("step %d (%s %s): callback fired %d times in total, model removed %d entries while a callback was registered (cb log %v, model %v)", i, op.Kind, op.Key, len(cbLog), len(expLog), cbLog, expLog), st
			}
			for j := range expLog {
				if cbLog[j] != expLog[j] {
					return fmt.Sprintf("step %d (%s %s): callback got %v, model removed %v", i, op.Kind, op.Key, cbLog[j], expLog[j]), st
				}
			}
		}
	}
	// Dump lists exactly the live values (order not asserted here).
	var want []string
	for _, e := range m.Ent {
		if e.V == nilMark {
			want = append(want, "") // a nil value is dumped as the empty line
		} else {
			want = append(want, fmt.Sprint(lruWrap(c.ValKind, e.V)))
		}
	}
	var got []string
	if d := cache.Dump(); d != "" {
		got = strings.Split(d, "\n")
	}
	sort.Strings(want)
	sort.Strings(got)
	if strings.Join(want, ",") != strings.Join(got, ",") {
		return fmt.Sprintf("final Dump holds values %v, model %v", got, want), st
	}
	// final sweep: which keys are live, with which values
	keys := make([]string, 0, len(used))
	for k := range used {
		keys = append(keys, k)
	}
	sort.Strings(keys)
	snapshot := m.Clone()
	for _, k := range keys {
		// the sweep itself reorders recency but never evicts, so membership is unaffected
		gv, gok := cache.Load(lruKey(c.KeyKind, k))
		wv, wok := snapshot.Load(k)
		if gok != wok {
			return fmt.Sprintf("final sweep Load(%s): hit=%v, model hit=%v", k, gok, wok), st
		}
		if wok && wv == nilMark {
			if gv != nil {
				return fmt.Sprintf("final sweep Load(%s): value %v, model: nil", k, gv), st
			}
		} else if wok {
			if iv, ok := lruUnwrap(gv); !ok || iv != wv {
				return fmt.Sprintf("final sweep Load(%s): value %v, model %d", k, gv, wv), st
			}
		}
	}
	return "", st
}

func (c LRUCase) key() string {
	b, _ := json.Marshal(c)
	return string(b)
}

func (s lruStats) nontrivial() bool { return s.recencyDecisive || s.overwrite || s.rebuildCross }

func (s lruStats) classify() {
	if s.recencyDecisive {
		ev.Class("eviction-where-recency-decides")
	}
	if s.overwrite {
		ev.Class("re-store-of-live-key")
	}
	if s.rebuildCross {
		ev.Class("crosses-map-rebuild-threshold")
	}
	if s.evictions > 0 {
		ev.Class("has-eviction")
	}
	if s.cbSwitched {
		ev.Class("callback-switched-off-or-on-in-mid-history")
	}
}

var lruLetters = func() []LRUOp {
	var l []LRUOp
	for _, k := range []string{"a", "b", "c"} {
		l = append(l, LRUOp{Kind: "S", Key: k}, LRUOp{Kind: "L", Key: k}, LRUOp{Kind: "D", Key: k})
	}
	return append(l, LRUOp{Kind: "N"})
}()

// enumLRU enumerates every sequence of exactly L letters (all shorter ones are
// prefixes and are checked step by step) for capacities 0..3, with and without
// a callback.
func enumLRU(t *testing.T, L int) {
	total := 1
	for i := 0; i < L; i++ {
		total *= len(lruLetters)
	}
	shard, nshard := ev.Shard()
	var count, nt int64
	var sample *LRUCase
	for idx := shard; idx < total; idx += nshard {
		ops := make([]LRUOp, L)
		x := idx
		for i := 0; i < L; i++ {
			ops[i] = lruLetters[x%len(lruLetters)]
			ops[i].Val = 100*(i+1) + i // unique per step: a stale value is always visible
			x /= len(lruLetters)
		}
		for capacity := 0; capacity <= 3; capacity++ {
			for _, variant := range []struct {
				cb bool
				kk string
			}{{false, "string"}, {true, "string"}, {true, "nilfirst"}} { // nilfirst: key a is the untyped nil interface
				c := LRUCase{Cap: capacity, Callback: variant.cb, KeyKind: variant.kk, Ops: ops}
				msg, st := checkLRUCase(c)
				count++
				if st.nontrivial() {
					nt++
					if sample == nil || (nt%100003 == 0) {
						cc := c
						sample = &cc
					}
				}
				if msg != "" {
					ev.Fail(t, "C09", "enum", c, "%s", msg)
				}
			}
		}
	}
	ev.Exhaustive(fmt.Sprintf("all sequences of length %d over {Store,Load,Delete}x{a,b,c}+Len, capacities 0..3, callback off / on / on with key a = untyped nil", L), int64(total)*12,
		fmt.Sprintf("this shard enumerated %d of them (%d/%d)", count, shard, nshard))
	ev.ExtraAdd("enumerated_sequences", count)
	ev.ExtraAdd("enumerated_nontrivial_distinct_by_construction", nt)
	if sample != nil {
		ev.Extra("enumerated_sample", sample)
	}
}

func genLRUCase(t *rapid.T, minLen int) LRUCase {
	c := LRUCase{
		Cap:      rapid.SampledFrom([]int{0, 1, 2, 3, 4, 8, 64, 64, 513, 600}).Draw(t, "cap"), // (513, 600: above the default size 512)
		Callback: rapid.Bool().Draw(t, "callback"),
		KeyKind:  rapid.SampledFrom([]string{"string", "int", "struct", "nilfirst", "printalike", "printalike-struct"}).Draw(t, "keykind"),
		ValKind:  rapid.SampledFrom([]string{"", "", "", "slice", "map", "boxed"}).Draw(t, "valkind"),
	}
	nkeys := c.Cap + rapid.IntRange(1, 4).Draw(t, "extraKeys")
	if rapid.IntRange(0, 4).Draw(t, "fewKeys") == 0 && c.Cap > 1 {
		nkeys = rapid.IntRange(1, c.Cap).Draw(t, "nkeys")
	}
	maxLen := 60
	if rapid.IntRange(0, 3).Draw(t, "long") == 0 {
		maxLen = ev.Pick(600, 2000)
	}
	n := rapid.IntRange(minLen, maxLen).Draw(t, "n")
	if c.Cap > 64 {
		// large capacities: fill beyond the capacity first (one draw for the whole run)
		over := rapid.IntRange(1, 40).Draw(t, "overfill")
		nkeys = c.Cap + over
		for i := 0; i < nkeys; i++ {
			c.Ops = append(c.Ops, LRUOp{Kind: "S", Key: fmt.Sprintf("k%d", i), Val: 100000 + i})
		}
	}
	if c.Cap >= 2 && c.Cap <= 64 && rapid.IntRange(0, 7).Draw(t, "coldEntry") == 0 {
		// an entry that is stored once and never touched again while other keys come and go by Delete alone (the cache
		// stays below its capacity, nothing is ever evicted): many times the number of removals any internal
		// clean-up period can have; the final sweep of every key looks at the cold one
		cold := fmt.Sprintf("k%d", nkeys+5)
		c.Ops = append(c.Ops, LRUOp{Kind: "S", Key: cold, Val: 777001})
		rounds := rapid.IntRange(2*c.Cap+2, 12*c.Cap+12).Draw(t, "coldRounds")
		hot := rapid.IntRange(1, c.Cap-1).Draw(t, "hotKeys")
		for r := 0; r < rounds; r++ {
			hk := fmt.Sprintf("k%d", r%hot)
			c.Ops = append(c.Ops, LRUOp{Kind: "S", Key: hk, Val: 778000 + r}, LRUOp{Kind: "D", Key: hk})
		}
		c.Ops = append(c.Ops, LRUOp{Kind: "N"}, LRUOp{Kind: "L", Key: cold})
		ev.Class("an entry nobody touches while other keys come and go by Delete alone")
	}
	for i := 0; i < n; i++ {
		k := fmt.Sprintf("k%d", rapid.IntRange(0, nkeys-1).Draw(t, "key"))
		if rapid.IntRange(0, 39).Draw(t, "burst") == 0 {
			// a long run of Loads without any write in between (alternating over a few keys)
			m := rapid.IntRange(50, 300).Draw(t, "burstLen")
			ks := []string{k, fmt.Sprintf("k%d", rapid.IntRange(0, nkeys-1).Draw(t, "burstKey2")), fmt.Sprintf("k%d", rapid.IntRange(0, nkeys-1).Draw(t, "burstKey3"))}
			nk := rapid.IntRange(1, 3).Draw(t, "burstKeys")
			for j := 0; j < m; j++ {
				c.Ops = append(c.Ops, LRUOp{Kind: "L", Key: ks[j%nk]})
			}
			continue
		}
		if rapid.IntRange(0, 29).Draw(t, "cbSwitch") == 13 {
			c.Ops = append(c.Ops, LRUOp{Kind: "C", Val: rapid.IntRange(0, 2).Draw(t, "cbOnOff")})
			continue
		}
		switch rapid.IntRange(0, 9).Draw(t, "op") {
		case 0, 1, 2, 3:
			c.Ops = append(c.Ops, LRUOp{Kind: "S", Key: k, Val: i + 1, Nil: rapid.IntRange(0, 14).Draw(t, "nilVal") == 0})
		case 4, 5, 6:
			c.Ops = append(c.Ops, LRUOp{Kind: "L", Key: k})
		case 7, 8:
			c.Ops = append(c.Ops, LRUOp{Kind: "D", Key: k})
		default:
			c.Ops = append(c.Ops, LRUOp{Kind: "N"})
		}
	}
	return c
}

func TestC09(t *testing.T) {
	t.Run("enum", func(t *testing.T) { enumLRU(t, ev.Pick(5, 7)) })
	t.Run("random", func(t *testing.T) {
		rapid.Check(t, func(t *rapid.T) {
			c := genLRUCase(t, 8) // longer than any enumerated sequence, so distinct from them
			var msg string
			var st lruStats
			// (a sequential history takes micro- to milliseconds; one that is still running after a minute is stuck)
			ev.Watched("C09", "random", c, 60*time.Second, func() { msg, st = checkLRUCase(c) })
			st.classify()
			ev.Class(fmt.Sprintf("cap=%d", c.Cap))
			ev.Class("keys=" + c.KeyKind)
			if c.ValKind != "" {
				ev.Class("values not comparable with == (" + c.ValKind + ")")
			}
			ev.Case(c.key(), st.nontrivial(), func() interface{} { return c })
			if msg != "" {
				ev.Fail(t, "C09", "random", c, "%s", msg)
			}
		})
	})
}

func TestC09Replay(t *testing.T) {
	for _, f := range ev.ReplayFiles() {
		rp, err := ev.LoadReplay(f)
		if err != nil {
			t.Fatalf("replay %s: %v", f, err)
		}
		var c LRUCase
		if err := json.Unmarshal(rp.Case, &c); err != nil {
			t.Fatalf("replay %s: %v", f, err)
		}
		if c.KeyKind == "" {
			c.KeyKind = "string"
		}
		if msg, _ := checkLRUCase(c); msg != "" {
			ev.Fail(t, "C09", "replay", c, "%s (replay %s)", msg, f)
		}
		ev.Class("replayed")
	}
}
