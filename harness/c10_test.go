package harness

import (
	"encoding/json"
	"fmt"
	"os"
	"runtime"
	"sort"
	"strconv"
	"strings"
	"sync"
	"sync/atomic"
	"testing"
	"time"

	"gitee.com/xuesongtao/protoc-go-valid/valid"
	"github.com/anishathalye/porcupine"
	"pgregory.net/rapid"

	"verifharness/ev"
	"verifharness/model"
)

// ---- C10: the LRU cache is safe and linearizable under concurrent use ----
//
// (i)   race mode: 2..16 goroutines run generated operation streams on one
//       cache with NO harness synchronisation between operations (an atomic or
//       a lock in the harness would create happens-before edges and hide the
//       races we look for); the race detector is the monitor (the binary is
//       built with -race and runs with GORACE=halt_on_error=1; the case is
//       written to the replay file before it runs and removed afterwards, so
//       the file that survives a race report is the racing case);
// (ii)  invariants on every result and at quiescence;
// (iii) linearizability mode: small histories with invoke/return stamps from
//       one atomic counter are checked by porcupine against the sequential
//       LRU model of C09.

// Kinds: S(tore) L(oad) D(elete) N(len) P(dump).

type C10Case struct {
	Mode     string    `json:"mode"` // "race" | "lin"
	Cap      int       `json:"cap"`
	Callback bool      `json:"callback"`
	Procs    int       `json:"gomaxprocs"`
	Streams  [][]LRUOp `json:"streams"`
	Yields   [][]int   `json:"yields,omitempty"` // lin mode: runtime.Gosched() calls before each op
	Reps     int       `json:"reps,omitempty"`   // executions of the same case (schedules differ)
	NilKey   bool      `json:"nilkey,omitempty"` // the first shared key ("s0" / "a") is the untyped nil interface
	Setup    []LRUOp   `json:"setup,omitempty"`  // lin mode: sequential prefix executed before the goroutines start (e.g. fills the cache)
}

// gokey maps a key name to the Go key handed to the cache.
func (c *C10Case) gokey(k string) interface{} {
	if c.NilKey && (k == "s0" || k == "a") {
		return nil
	}
	return k
}

func (c *C10Case) keyName(k interface{}) string {
	if k == nil && c.NilKey {
		if c.Mode == "lin" {
			return "a"
		}
		return "s0"
	}
	ks, _ := k.(string)
	return ks
}

type c10Res struct {
	v    int
	ok   bool
	n    int
	dump string
}

type c10Facts struct {
	goroutines int
	ops        int
	evictions  int
	overlap    bool
	mutations  int
	canEvict   bool // more distinct keys in use than the capacity
}

// valOf makes every stored value unique and self-describing: it names its key.
func c10Val(keyIdx, g, i int) int { return keyIdx*1000000 + g*10000 + i + 1 }

func c10KeyIdx(k string) int {
	if strings.HasPrefix(k, "p") { // private keys: p<g>_<j>
		parts := strings.Split(k[1:], "_")
		g, _ := strconv.Atoi(parts[0])
		j, _ := strconv.Atoi(parts[1])
		return 100 + g*10 + j
	}
	n, _ := strconv.Atoi(k[1:]) // shared keys: s<n>
	return n
}

// waitWatchdog waits for wg; on timeout it reports whether the workers are
// stuck inside the cache (deadlock) or the machine is merely slow.
func waitWatchdog(wg *sync.WaitGroup, d time.Duration) (done bool, stuckInCache bool, stacks string) {
	ch := make(chan struct{})
	go func() { wg.Wait(); close(ch) }()
	select {
	case <-ch:
		return true, false, ""
	case <-time.After(d):
		buf := make([]byte, 1<<20)
		n := runtime.Stack(buf, true)
		s := string(buf[:n])
		return false, strings.Contains(s, "valid.(*LRUCache)") && strings.Contains(s, "sync.(*RWMutex)"), s
	}
}

// runC10Race executes one race-mode case and checks invariants.
func runC10Race(c *C10Case) (string, c10Facts) {
	facts := c10Facts{goroutines: len(c.Streams)}
	setProcs(c.Procs)
	cache := valid.NewLRU(c.Cap)
	var cbLog []model.KV // appended inside the callback, i.e. under the cache's own lock
	if c.Callback {
		cache.SetDelCallBackFn(func(k, v interface{}) {
			iv, _ := v.(int)
			cbLog = append(cbLog, model.KV{K: c.keyName(k), V: iv})
		})
	}
	G := len(c.Streams)
	results := make([][]c10Res, G)
	panics := make([]interface{}, G)
	start := make(chan struct{})
	var wg sync.WaitGroup
	for g := 0; g < G; g++ {
		wg.Add(1)
		go func(g int) {
			defer wg.Done()
			defer func() {
				if p := recover(); p != nil {
					panics[g] = p
				}
			}()
			ops := c.Streams[g]
			local := make([]c10Res, len(ops))
			<-start
			for i, op := range ops {
				switch op.Kind {
				case "S":
					cache.Store(c.gokey(op.Key), op.Val)
				case "L":
					v, ok := cache.Load(c.gokey(op.Key))
					iv, _ := v.(int)
					local[i] = c10Res{v: iv, ok: ok}
				case "D":
					cache.Delete(c.gokey(op.Key))
				case "N":
					local[i] = c10Res{n: cache.Len()}
				case "P":
					local[i] = c10Res{dump: cache.Dump()}
				}
			}
			results[g] = local
		}(g)
	}
	close(start)
	if done, stuck, stacks := waitWatchdog(&wg, 120*time.Second); !done {
		if stuck {
			return "deadlock: after 120s the workers are still blocked inside the cache:\n" + firstLines(stacks, 60), facts
		}
		return "INCONCLUSIVE: watchdog fired but the workers are not blocked in the cache", facts
	}
	for g, p := range panics {
		if p != nil {
			return fmt.Sprintf("goroutine %d panicked: %v", g, p), facts
		}
	}
	// ---- per-result invariants ----
	stored := map[int]string{} // value -> key it was stored under
	keys := map[string]bool{}
	for g, ops := range c.Streams {
		for _, op := range ops {
			facts.ops++
			if op.Kind == "S" {
				stored[op.Val] = op.Key
				facts.mutations++
			}
			if op.Kind == "D" {
				facts.mutations++
			}
			if op.Key != "" {
				keys[op.Key] = true
			}
		}
		_ = g
	}
	evictionPossible := len(keys) > c.Cap
	facts.canEvict = evictionPossible
	for g, ops := range c.Streams {
		own := map[string]int{} // private key -> own last stored value (0 = deleted / never stored)
		for i, op := range ops {
			r := results[g][i]
			private := strings.HasPrefix(op.Key, "p")
			switch op.Kind {
			case "S":
				if private {
					own[op.Key] = op.Val
				}
			case "D":
				if private {
					own[op.Key] = 0
				}
			case "L":
				if r.ok {
					if k, was := stored[r.v]; !was || k != op.Key {
						return fmt.Sprintf("goroutine %d op %d Load(%s) returned %d, which nobody stored under that key", g, i, op.Key, r.v), facts
					}
				}
				if private {
					want := own[op.Key]
					switch {
					case want == 0 && r.ok:
						return fmt.Sprintf("goroutine %d op %d Load(%s) hit (%d) although this goroutine - the only user of the key - had deleted / never stored it", g, i, op.Key, r.v), facts
					case want != 0 && r.ok && r.v != want:
						return fmt.Sprintf("goroutine %d op %d Load(%s) returned %d, the value most recently stored by the key's only user is %d", g, i, op.Key, r.v, want), facts
					case want != 0 && !r.ok && !evictionPossible:
						return fmt.Sprintf("goroutine %d op %d Load(%s) missed although the key is live and the %d keys in use fit the capacity %d", g, i, op.Key, len(keys), c.Cap), facts
					}
				}
			case "N":
				if r.n < 0 || r.n > c.Cap {
					return fmt.Sprintf("goroutine %d op %d Len() = %d with capacity %d", g, i, r.n, c.Cap), facts
				}
			case "P":
				if m := c10DumpOK(r.dump, stored, c.Cap); m != "" {
					return fmt.Sprintf("goroutine %d op %d Dump(): %s", g, i, m), facts
				}
			}
		}
	}
	// ---- quiescence ----
	n := cache.Len()
	if n < 0 || n > c.Cap {
		return fmt.Sprintf("at quiescence Len() = %d with capacity %d", n, c.Cap), facts
	}
	d := cache.Dump()
	if m := c10DumpOK(d, stored, c.Cap); m != "" {
		return "at quiescence Dump(): " + m, facts
	}
	lines := 0
	if d != "" {
		lines = len(strings.Split(d, "\n"))
	}
	if lines != n {
		return fmt.Sprintf("at quiescence Dump() lists %d values but Len() = %d", lines, n), facts
	}
	names := make([]string, 0, len(keys))
	for k := range keys {
		names = append(names, k)
	}
	sort.Strings(names)
	hits := 0
	for _, k := range names {
		if v, ok := cache.Load(c.gokey(k)); ok {
			hits++
			if iv, _ := v.(int); stored[iv] != k {
				return fmt.Sprintf("at quiescence Load(%s) = %v, which nobody stored under that key", k, v), facts
			}
		}
	}
	if hits != n {
		return fmt.Sprintf("at quiescence %d keys are live but Len() = %d", hits, n), facts
	}
	facts.evictions = len(cbLog)
	for _, k := range names {
		cache.Delete(c.gokey(k))
	}
	if l := cache.Len(); l != 0 {
		return fmt.Sprintf("after deleting every key Len() = %d", l), facts
	}
	if d := cache.Dump(); d != "" {
		return fmt.Sprintf("after deleting every key Dump() = %q", d), facts
	}
	if c.Callback {
		seen := map[model.KV]bool{}
		for _, kv := range cbLog {
			if stored[kv.V] != kv.K {
				return fmt.Sprintf("removal callback got (%s, %d), which was never stored", kv.K, kv.V), facts
			}
			if seen[kv] {
				return fmt.Sprintf("removal callback fired twice for (%s, %d)", kv.K, kv.V), facts
			}
			seen[kv] = true
		}
		if len(cbLog)-facts.evictions != hits {
			return fmt.Sprintf("deleting the %d live entries fired the removal callback %d times", hits, len(cbLog)-facts.evictions), facts
		}
	}
	return "", facts
}

func firstLines(s string, n int) string {
	l := strings.Split(s, "\n")
	if len(l) > n {
		l = l[:n]
	}
	return strings.Join(l, "\n")
}

// c10DumpOK: every line is a stored value, no value twice, at most cap lines.
func c10DumpOK(d string, stored map[int]string, capacity int) string {
	if d == "" {
		return ""
	}
	lines := strings.Split(d, "\n")
	if len(lines) > capacity {
		return fmt.Sprintf("%d values listed, capacity %d", len(lines), capacity)
	}
	seen := map[string]bool{}
	for _, l := range lines {
		v, err := strconv.Atoi(l)
		if err != nil {
			return fmt.Sprintf("line %q is not a stored value", l)
		}
		if _, ok := stored[v]; !ok {
			return fmt.Sprintf("value %d was never stored", v)
		}
		if seen[l] {
			return fmt.Sprintf("value %s listed twice", l)
		}
		seen[l] = true
	}
	return ""
}

// ---- linearizability mode ----

type linIn struct {
	Kind string
	Key  string
	Val  int
}

type linOut struct {
	V    int
	OK   bool
	N    int
	Dump string
}

// RecordedOp is one operation of a recorded concurrent history (replay file).
type RecordedOp struct {
	G      int    `json:"g"`
	Op     LRUOp  `json:"op"`
	Call   int64  `json:"call"`
	Return int64  `json:"ret"`
	Out    string `json:"out"`
}

func linModel(capacity int) porcupine.Model {
	// state: entries in recency order, encoded "k=v,k=v"
	dec := func(s string) *model.LRU {
		m := &model.LRU{Cap: capacity}
		if s == "" {
			return m
		}
		for _, p := range strings.Split(s, ",") {
			kv := strings.SplitN(p, "=", 2)
			v, _ := strconv.Atoi(kv[1])
			m.Ent = append(m.Ent, model.KV{K: kv[0], V: v})
			m.Ins = append(m.Ins, kv[0])
		}
		return m
	}
	enc := func(m *model.LRU) string {
		parts := make([]string, len(m.Ent))
		for i, e := range m.Ent {
			parts[i] = e.K + "=" + strconv.Itoa(e.V)
		}
		return strings.Join(parts, ",")
	}
	return porcupine.Model{
		Init: func() interface{} { return "" },
		Step: func(state, input, output interface{}) (bool, interface{}) {
			m := dec(state.(string))
			in, out := input.(linIn), output.(linOut)
			switch in.Kind {
			case "S":
				m.Store(in.Key, in.Val)
				return true, enc(m)
			case "L":
				v, ok := m.Load(in.Key)
				return ok == out.OK && (!ok || v == out.V), enc(m)
			case "D":
				m.Delete(in.Key)
				return true, enc(m)
			case "N":
				return out.N == m.Len(), state
			case "P":
				vals := make([]string, len(m.Ent))
				for i, e := range m.Ent {
					vals[i] = strconv.Itoa(e.V)
				}
				return out.Dump == strings.Join(vals, "\n"), state
			}
			return false, state
		},
		DescribeOperation: func(input, output interface{}) string {
			return fmt.Sprintf("%+v -> %+v", input, output)
		},
	}
}

// runC10Lin executes the case once and returns the recorded history.
func runC10Lin(c *C10Case) ([]porcupine.Operation, string) {
	setProcs(c.Procs)
	cache := valid.NewLRU(c.Cap)
	if c.Callback {
		cache.SetDelCallBackFn(func(k, v interface{}) {})
	}
	var clock int64
	G := len(c.Streams)
	// do executes one operation and records it with invoke / return stamps
	do := func(g int, op LRUOp) porcupine.Operation {
		var out linOut
		call := atomic.AddInt64(&clock, 1)
		switch op.Kind {
		case "S":
			cache.Store(c.gokey(op.Key), op.Val)
		case "L":
			v, ok := cache.Load(c.gokey(op.Key))
			iv, _ := v.(int)
			out = linOut{V: iv, OK: ok}
		case "D":
			cache.Delete(c.gokey(op.Key))
		case "N":
			out = linOut{N: cache.Len()}
		case "P":
			out = linOut{Dump: cache.Dump()}
		}
		ret := atomic.AddInt64(&clock, 1)
		return porcupine.Operation{ClientId: g, Input: linIn{op.Kind, op.Key, op.Val}, Call: call, Output: out, Return: ret}
	}
	// sequential prefix (same recording: it is part of the history)
	var prefix []porcupine.Operation
	if p := ev.Guard(func() {
		for _, op := range c.Setup {
			prefix = append(prefix, do(G, op))
		}
	}); p != nil {
		return nil, fmt.Sprintf("setup panicked: %v", p)
	}
	hist := make([][]porcupine.Operation, G)
	panics := make([]interface{}, G)
	start := make(chan struct{})
	var wg sync.WaitGroup
	for g := 0; g < G; g++ {
		wg.Add(1)
		go func(g int) {
			defer wg.Done()
			defer func() {
				if p := recover(); p != nil {
					panics[g] = p
				}
			}()
			<-start
			for i, op := range c.Streams[g] {
				if g < len(c.Yields) && i < len(c.Yields[g]) {
					for y := 0; y < c.Yields[g][i]; y++ {
						runtime.Gosched()
					}
				}
				hist[g] = append(hist[g], do(g, op))
			}
		}(g)
	}
	close(start)
	if done, stuck, stacks := waitWatchdog(&wg, 120*time.Second); !done {
		if stuck {
			return nil, "deadlock: after 120s the workers are still blocked inside the cache:\n" + firstLines(stacks, 60)
		}
		return nil, "INCONCLUSIVE: watchdog fired"
	}
	for g, p := range panics {
		if p != nil {
			return nil, fmt.Sprintf("goroutine %d panicked: %v", g, p)
		}
	}
	all := append([]porcupine.Operation(nil), prefix...)
	for _, h := range hist {
		all = append(all, h...)
	}
	// observation at quiescence, recorded as part of the history: the final state
	// (order, membership, values, Len) must be explained by the same sequential order
	if p := ev.Guard(func() {
		all = append(all, do(G, LRUOp{Kind: "P"}), do(G, LRUOp{Kind: "N"}))
		for _, k := range []string{"a", "b", "c"} {
			all = append(all, do(G, LRUOp{Kind: "L", Key: k}))
		}
	}); p != nil {
		return nil, fmt.Sprintf("observation at quiescence panicked: %v", p)
	}
	return all, ""
}

func recorded(ops []porcupine.Operation) []RecordedOp {
	out := make([]RecordedOp, len(ops))
	for i, o := range ops {
		in := o.Input.(linIn)
		out[i] = RecordedOp{G: o.ClientId, Op: LRUOp{Kind: in.Kind, Key: in.Key, Val: in.Val}, Call: o.Call, Return: o.Return, Out: fmt.Sprintf("%+v", o.Output)}
	}
	sort.Slice(out, func(i, j int) bool { return out[i].Call < out[j].Call })
	return out
}

// checkC10Lin executes the case Reps times; every recorded history must be
// linearizable with respect to the sequential LRU model.
func checkC10Lin(c *C10Case) (msg string, facts c10Facts, bad []RecordedOp) {
	facts.goroutines = len(c.Streams)
	reps := c.Reps
	if reps <= 0 {
		reps = 1
	}
	m := linModel(c.Cap)
	for r := 0; r < reps; r++ {
		ops, emsg := runC10Lin(c)
		if emsg != "" {
			return emsg, facts, nil
		}
		facts.ops += len(ops)
		// overlap: some operation is invoked before an earlier-invoked one returned
		for i := range ops {
			for j := range ops {
				if i != j && ops[i].ClientId != ops[j].ClientId && ops[i].Call < ops[j].Call && ops[j].Call < ops[i].Return {
					facts.overlap = true
				}
			}
		}
		res := porcupine.CheckOperationsTimeout(m, ops, 20*time.Second)
		if res == porcupine.Illegal {
			return fmt.Sprintf("execution %d of the case produced a history that no sequential order of the calls explains (capacity %d)", r, c.Cap), facts, recorded(ops)
		}
	}
	// evictions in the model's sequential reading of the streams (for the classifier)
	keys := map[string]bool{}
	for _, s := range c.Streams {
		for _, op := range s {
			if op.Kind == "S" {
				keys[op.Key] = true
				facts.mutations++
			}
			if op.Kind == "D" {
				facts.mutations++
			}
		}
	}
	if len(keys) > c.Cap {
		facts.evictions = len(keys) - c.Cap
	}
	return "", facts, nil
}

// ---- generators ----

func genC10Race(t *rapid.T) *C10Case {
	c := &C10Case{Mode: "race",
		Cap:      rapid.SampledFrom([]int{0, 1, 2, 3, 4, 8}).Draw(t, "cap"),
		Callback: rapid.Bool().Draw(t, "callback"),
		Procs:    rapid.SampledFrom([]int{16, 4, 2, 1}).Draw(t, "procs"),
		NilKey:   rapid.IntRange(0, 3).Draw(t, "nilKey") == 0,
	}
	G := rapid.SampledFrom([]int{2, 2, 3, 4, 8, 16}).Draw(t, "goroutines")
	nShared := rapid.SampledFrom([]int{3, 3, 64}).Draw(t, "sharedKeys")
	nPriv := rapid.IntRange(0, 2).Draw(t, "privateKeys")
	perG := rapid.IntRange(20, ev.Pick(300, 1500)).Draw(t, "opsPerGoroutine")
	// the op mix is drawn once per stream, individual ops from a cheap pattern
	// (one rapid draw per op would dominate the run time)
	for g := 0; g < G; g++ {
		mix := rapid.SampledFrom([]string{"SSLLDNP", "SSSSLLD", "SLLLLLN", "SDSDSDL", "SLPSLPD", "SSSSSSS", "LLLLPPN"}).Draw(t, "mix")
		salt := rapid.IntRange(0, 1<<20).Draw(t, "salt")
		ops := make([]LRUOp, perG)
		x := uint32(salt*2654435761 + g + 1)
		for i := range ops {
			x ^= x << 13
			x ^= x >> 17
			x ^= x << 5
			kind := string(mix[int(x>>8)%len(mix)])
			var key string
			if nPriv > 0 && (x>>4)%3 == 0 {
				key = fmt.Sprintf("p%d_%d", g, int(x>>16)%nPriv)
			} else {
				key = fmt.Sprintf("s%d", int(x>>16)%nShared)
			}
			op := LRUOp{Kind: kind}
			if kind == "S" || kind == "L" || kind == "D" {
				op.Key = key
			}
			if kind == "S" {
				op.Val = c10Val(c10KeyIdx(key), g, i)
			}
			ops[i] = op
		}
		c.Streams = append(c.Streams, ops)
	}
	return c
}

func genC10Lin(t *rapid.T) *C10Case {
	c := &C10Case{Mode: "lin",
		Cap:      rapid.IntRange(0, 3).Draw(t, "cap"),
		Callback: rapid.Bool().Draw(t, "callback"),
		Procs:    rapid.SampledFrom([]int{16, 4, 2}).Draw(t, "procs"),
		Reps:     ev.Pick(12, 30),
		NilKey:   rapid.IntRange(0, 3).Draw(t, "nilKey") == 0,
	}
	if rapid.IntRange(0, 9).Draw(t, "bigCache") == 0 {
		// a large cache (beyond any batch size an implementation may use when walking the list):
		// filled sequentially, then Dump runs against writers
		c.Cap = rapid.SampledFrom([]int{127, 128, 129, 200, 256, 300, 520}).Draw(t, "bigCap")
		c.Reps = ev.Pick(3, 6)
		fill := c.Cap + rapid.IntRange(0, 3).Draw(t, "overfill")
		for i := 0; i < fill; i++ {
			c.Setup = append(c.Setup, LRUOp{Kind: "S", Key: fmt.Sprintf("k%d", i), Val: 5000 + i})
		}
		// (several goroutines dump at once; a Store is often followed by a Dump of the same goroutine, which
		// has to list what was just stored)
		twoDumpers := rapid.Bool().Draw(t, "twoDumpers")
		for g := 0; g < 3; g++ {
			var ops []LRUOp
			nb := rapid.IntRange(1, 4).Draw(t, "bigN")
			for i := 0; i < nb; i++ {
				switch {
				case g == 0 || (g == 1 && twoDumpers):
					ops = append(ops, LRUOp{Kind: "P"})
				case rapid.Bool().Draw(t, "bigStore"):
					ops = append(ops, LRUOp{Kind: "S", Key: fmt.Sprintf("n%d_%d", g, i), Val: 9000 + g*10 + i})
					if rapid.Bool().Draw(t, "dumpAfterStore") {
						ops = append(ops, LRUOp{Kind: "P"})
					}
				default:
					ops = append(ops, LRUOp{Kind: rapid.SampledFrom([]string{"L", "D"}).Draw(t, "bigOp"), Key: fmt.Sprintf("k%d", rapid.IntRange(0, c.Cap-1).Draw(t, "bigKey"))})
				}
			}
			c.Streams = append(c.Streams, ops)
		}
		return c
	}
	// sequential prefix: usually fills the cache, so the concurrent phase starts on a full cache
	for i, n := 0, rapid.IntRange(0, 4).Draw(t, "nSetup"); i < n; i++ {
		k := rapid.SampledFrom([]string{"a", "b", "c"}).Draw(t, "setupKey")
		if rapid.IntRange(0, 3).Draw(t, "setupLoad") == 0 {
			c.Setup = append(c.Setup, LRUOp{Kind: "L", Key: k})
		} else {
			c.Setup = append(c.Setup, LRUOp{Kind: "S", Key: k, Val: 900 + i})
		}
	}
	if len(c.Setup) > 0 && rapid.IntRange(0, 7).Draw(t, "loadBurst") == 0 {
		// a long run of Loads (no write in between) before the concurrent phase
		m := rapid.IntRange(60, 200).Draw(t, "burstLen")
		for j := 0; j < m; j++ {
			c.Setup = append(c.Setup, LRUOp{Kind: "L", Key: []string{"a", "b", "c"}[j%3]})
		}
		c.Setup = append(c.Setup, LRUOp{Kind: "L", Key: rapid.SampledFrom([]string{"a", "b", "c"}).Draw(t, "afterBurst")})
	}
	setupVal := map[string]int{}
	for _, op := range c.Setup {
		if op.Kind == "S" {
			setupVal[op.Key] = op.Val
		}
	}
	G := rapid.IntRange(2, 4).Draw(t, "goroutines")
	for g := 0; g < G; g++ {
		n := rapid.IntRange(1, 5).Draw(t, "n")
		if len(c.Setup) > 0 && rapid.Bool().Draw(t, "short") {
			n = rapid.IntRange(1, 2).Draw(t, "nShort") // few operations right after the start line: they overlap
		}
		var ops []LRUOp
		var ys []int
		for i := 0; i < n; i++ {
			k := rapid.SampledFrom([]string{"a", "b", "c"}).Draw(t, "key")
			switch rapid.IntRange(0, 9).Draw(t, "op") {
			case 0, 1, 2, 3:
				val := g*100 + i + 1
				if sv, ok := setupVal[k]; ok && rapid.IntRange(0, 2).Draw(t, "sameValue") == 1 {
					val = sv // the value the key holds since the sequential prefix: a Store that changes nothing but the order
				}
				ops = append(ops, LRUOp{Kind: "S", Key: k, Val: val})
			case 4, 5, 6:
				ops = append(ops, LRUOp{Kind: "L", Key: k})
			case 7:
				ops = append(ops, LRUOp{Kind: "D", Key: k})
			case 8:
				ops = append(ops, LRUOp{Kind: "N"})
			default:
				ops = append(ops, LRUOp{Kind: "P"})
			}
			ys = append(ys, rapid.SampledFrom([]int{0, 0, 0, 1, 2, 5}).Draw(t, "yield"))
		}
		c.Streams = append(c.Streams, ops)
		c.Yields = append(c.Yields, ys)
	}
	return c
}

func c10Key(c *C10Case) string {
	b, _ := json.Marshal(c)
	return string(b)
}

func c10Sample(c *C10Case) interface{} {
	s := *c
	s.Streams = nil
	for _, st := range c.Streams {
		if len(st) > 8 {
			st = st[:8]
		}
		s.Streams = append(s.Streams, st)
	}
	total := 0
	for _, st := range c.Streams {
		total += len(st)
	}
	return map[string]interface{}{"case_head": s, "total_ops": total}
}

// inconclusive ends the process with the exit status the driver maps to
// "inconclusive" (never a violation).
func inconclusive(msg string) {
	fmt.Println(msg)
	ev.Flush()
	os.Exit(3)
}

func c10RaceOnce(t ev.TB, c *C10Case, sub string) {
	// the case is on disk while it runs: a race report ends the process at once
	// (GORACE=halt_on_error=1) and the file that is left is the racing case
	ev.WriteReplay("C10", "race-detector", c, "the race detector reported a data race (or the process died) while this case was running; re-run it under -race")
	msg, facts := runC10Race(c)
	ev.ClearReplay()
	if strings.HasPrefix(msg, "INCONCLUSIVE") {
		inconclusive(msg)
	}
	ev.Class(fmt.Sprintf("race-mode goroutines=%d", facts.goroutines))
	ev.ClassN("race-mode operations", int64(facts.ops))
	ev.ClassN("race-mode evictions (callback count)", int64(facts.evictions))
	nt := facts.goroutines >= 2 && facts.mutations > 0 && facts.canEvict
	ev.Case(c10Key(c), nt, func() interface{} { return c10Sample(c) })
	if msg != "" {
		ev.Fail(t, "C10", sub, c, "%s", msg)
	}
}

func c10LinOnce(t ev.TB, c *C10Case, sub string) {
	msg, facts, bad := checkC10Lin(c)
	if strings.HasPrefix(msg, "INCONCLUSIVE") {
		inconclusive(msg)
	}
	ev.Class(fmt.Sprintf("lin-mode goroutines=%d", facts.goroutines))
	ev.ClassN("lin-mode recorded operations", int64(facts.ops))
	if facts.overlap {
		ev.Class("lin-mode history with overlapping operations")
	}
	nt := facts.overlap && facts.mutations > 0 && facts.evictions > 0
	ev.Case(c10Key(c), nt, func() interface{} { return c })
	if msg != "" {
		ev.Fail(t, "C10", sub, map[string]interface{}{"mode": "lin", "cap": c.Cap, "callback": c.Callback, "gomaxprocs": c.Procs, "nilkey": c.NilKey,
			"streams": c.Streams, "yields": c.Yields, "setup": c.Setup, "reps": 200, "recorded_history": bad}, "%s", msg)
	}
}

func TestC10(t *testing.T) {
	// -rapid.checks is sized for the heavy race-mode runs; the cheap
	// linearizability cases come in batches per rapid check
	t.Run("race", func(t *testing.T) {
		rapid.Check(t, func(t *rapid.T) { c10RaceOnce(t, genC10Race(t), "race-invariants") })
	})
	t.Run("lin", func(t *testing.T) {
		rapid.Check(t, func(t *rapid.T) {
			for i := 0; i < 20; i++ {
				c10LinOnce(t, genC10Lin(t), "linearizability")
			}
		})
	})
}

func TestC10Replay(t *testing.T) {
	for _, f := range ev.ReplayFiles() {
		rp, err := ev.LoadReplay(f)
		if err != nil {
			t.Fatalf("replay %s: %v", f, err)
		}
		var c C10Case
		if err := json.Unmarshal(rp.Case, &c); err != nil {
			t.Fatalf("replay %s: %v", f, err)
		}
		if c.Procs <= 0 {
			c.Procs = 16
		}
		ev.Class("replayed")
		if c.Mode == "lin" {
			if c.Reps <= 0 {
				c.Reps = 200
			}
			c10LinOnce(t, &c, "replay")
			continue
		}
		reps := c.Reps
		if reps <= 0 {
			reps = 30
		}
		for i := 0; i < reps; i++ {
			c10RaceOnce(t, &c, "replay")
		}
	}
}
