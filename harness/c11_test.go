package harness

import (
	"encoding/json"
	"fmt"
	"os"
	"runtime"
	"strings"
	"sync"
	"sync/atomic"
	"testing"
	"time"

	"pgregory.net/rapid"

	"verifharness/desc"
	"verifharness/ev"
)

// ---- C11: concurrent validations do not interfere ----
//
// A pool of call specifications (struct calls with different tag names, rule
// overrides and per-call functions over shared named types, shared and private
// synthesised types and more bank types than the cache holds; Var, Map and Url
// calls) is executed solo first (fresh state) - that is the oracle - and then
// by 2..32 goroutines, each running its own generated stream of pool indices
// on its own, privately built inputs.  Everything is built before the
// goroutines start and the harness performs NO synchronisation between calls;
// results go to goroutine-local slices.  The binary is built with -race and
// ends at the first race report (the running case is on disk).

type C11Case struct {
	Pool     []*Call `json:"pool"`
	BankFrom int     `json:"bank_from"` // further pool entries: bank types BankFrom..BankFrom+BankN-1
	BankN    int     `json:"bank_n"`
	BankTag  string  `json:"bank_tag"`
	Cache    string  `json:"cache"` // lru2 | lru8 | lru512 | syncmap | miss
	Procs    int     `json:"gomaxprocs"`
	G        int     `json:"goroutines"`
	Len      int     `json:"calls_per_goroutine"`
	Salt     int     `json:"salt"`
	Private  bool    `json:"private_types"` // each goroutine additionally validates a type nobody else uses
	Reps     int     `json:"reps,omitempty"`
	// Fresh: after the pool phase, this many rounds in each of which a struct type nobody has seen yet
	// carries rules under two or three tag names nobody has used yet in this process; two goroutines per
	// tag name validate a value of it under "their" name, all released at the same moment (first use
	// of a type, first use of several tag names, all at once).  Every result is compared with the
	// reference walker; the same calls are then repeated one after the other.
	Fresh int `json:"fresh_rounds,omitempty"`
	// Hot: "plain" / "collections": the bank entries are the whole pool (see genC11Case); with
	// "collections" every second one is a top-level slice, every third a map of the bank type
	Hot string `json:"hot,omitempty"`
}

// freshCounter: process-wide, so that no tag name and no type of a fresh round is ever used twice.
var freshCounter int64

// freshRoundCalls builds the calls of one round: one struct type, k tag names, different rules under each.
func freshRoundCalls(n int64, k, wide int) []*Call {
	names := make([]string, k)
	for j := range names {
		names[j] = fmt.Sprintf("fu%d%c", n, 'a'+j)
	}
	aRules := []string{"to=1~2", "ge=5", "required,prefix=zz"}
	bRules := []string{"le=1", "in=(7/8)", "gt=50"}
	ty := desc.T{K: "struct"}
	val := desc.V{}
	fa := desc.F{Name: "A", T: desc.Scalar("string"), Tags: map[string]string{}}
	fb := desc.F{Name: "B", T: desc.Scalar("int"), Tags: map[string]string{}}
	for j, nm := range names {
		fa.Tags[nm] = aRules[j] + "|" + nm + "A"
		fb.Tags[nm] = bRules[j] + "|" + nm + "B"
	}
	ty.Fields = append(ty.Fields, fa)
	val.E = append(val.E, desc.Str("abc"))
	for i := 0; i < wide; i++ {
		f := desc.F{Name: fmt.Sprintf("W%03d", i), T: desc.Scalar("string"), Tags: map[string]string{}}
		for j, nm := range names {
			if (i+j)%3 != 0 {
				f.Tags[nm] = fmt.Sprintf("required|%sW%d", nm, i)
			}
		}
		ty.Fields = append(ty.Fields, f)
		val.E = append(val.E, desc.V{})
	}
	ty.Fields = append(ty.Fields, fb)
	val.E = append(val.E, desc.V{I: 3})
	var out []*Call
	for _, nm := range names {
		out = append(out, &Call{S: &StructCase{Root: desc.Ptr(ty), Val: desc.V{E: []desc.V{val}}, Tag: nm, Entry: "ValidateStruct"}})
	}
	return out
}

// runC11Fresh: see C11Case.Fresh.
func runC11Fresh(c *C11Case) (string, int) {
	setProcs(c.Procs)
	for r := 0; r < c.Fresh; r++ {
		n := atomic.AddInt64(&freshCounter, 1)
		k := 2 + (c.Salt+r)%2
		wide := []int{0, 0, 30, 120}[(c.Salt/3+r)%4]
		calls := freshRoundCalls(n, k, wide)
		per := 2
		G := len(calls) * per
		preps := make([]*prepared, G)
		outs := make([]outcome, G)
		for g := range preps {
			preps[g] = calls[g%len(calls)].prepare()
		}
		var ready int32
		var wg sync.WaitGroup
		yield := c.Procs < G
		for g := 0; g < G; g++ {
			wg.Add(1)
			go func(g int) {
				defer wg.Done()
				atomic.AddInt32(&ready, 1)
				for atomic.LoadInt32(&ready) < int32(G) {
					if yield {
						runtime.Gosched()
					}
				}
				outs[g] = preps[g].run()
			}(g)
		}
		if done, _, stacks := waitWatchdog(&wg, 180*time.Second); !done {
			if strings.Contains(stacks, "protoc-go-valid/valid.") && strings.Contains(stacks, "sync.(*") {
				return "deadlock in a fresh-type round: after 180s the workers are still blocked inside the library:\n" + firstLines(stacks, 60), r
			}
			return "INCONCLUSIVE: watchdog fired in a fresh-type round but the workers are not blocked in the library", r
		}
		for g := 0; g < G; g++ {
			call := calls[g%len(calls)]
			res, _ := call.predict()
			if m := call.againstModel(res, outs[g]); m != "" {
				return fmt.Sprintf("fresh-type round %d (%d fields, %d new tag names, first use by %d goroutines at once): the call under tag %q disagrees with the reference walker: %s", r, wide+2, k, G, call.S.Tag, m), r
			}
		}
		// ... and the same calls afterwards, one after the other
		for _, call := range calls {
			o := call.prepare().run()
			res, _ := call.predict()
			if m := call.againstModel(res, o); m != "" {
				return fmt.Sprintf("fresh-type round %d: AFTER the concurrent first use the call under tag %q disagrees with the reference walker: %s", r, call.S.Tag, m), r
			}
		}
	}
	return "", c.Fresh
}

type c11Facts struct {
	sharedTypeConcurrently bool
	evictions              int64
	calls                  int
	goroutines             int
}

func (c *C11Case) pool() []*Call {
	out := append([]*Call(nil), c.Pool...)
	for i := 0; i < c.BankN; i++ {
		bc := bankCall(c.BankFrom+i, c.BankTag)
		if c.Hot == "collections" && i%2 == 1 {
			elem := *bc.S.Root.Elem
			one := bc.S.Val.E[0]
			other := desc.V{E: []desc.V{desc.Str(""), {I: 100}}}
			if i%3 == 0 {
				bc.S.Root = desc.Map(desc.Scalar("string"), desc.Ptr(elem))
				bc.S.Val = desc.V{K: []desc.V{desc.Str("k1")}, E: []desc.V{{E: []desc.V{one}}}}
			} else {
				bc.S.Root = desc.Slice(elem)
				bc.S.Val = desc.V{E: []desc.V{one, other, one}}
			}
			bc.S.Entry = "Struct"
			if bc.S.Tag != "" {
				bc.S.Entry = "ValidateStruct"
			}
		}
		out = append(out, bc)
	}
	return out
}

// stream is the generated sequence of pool indices of goroutine g (a pure
// function of the case: xorshift from the salt).
func (c *C11Case) stream(g, npool int) []int {
	out := make([]int, c.Len)
	x := uint32(c.Salt*2654435761) + uint32(g+1)*40503
	if x == 0 {
		x = 1
	}
	for i := range out {
		x ^= x << 13
		x ^= x >> 17
		x ^= x << 5
		out[i] = int(x>>7) % npool
	}
	return out
}

func privateCall(g int) *Call {
	ty := desc.T{K: "struct", Fields: []desc.F{
		{Name: "A", T: desc.Scalar("string"), Tags: map[string]string{"valid": fmt.Sprintf("required,to=2~3|private%d", g)}},
		{Name: "B", T: desc.Scalar("int"), Tags: map[string]string{"valid": fmt.Sprintf("ge=%d", g)}},
	}}
	return &Call{S: &StructCase{Root: desc.Ptr(ty), Entry: "Struct",
		Val: desc.V{E: []desc.V{{E: []desc.V{desc.Str(strPool[g%len(strPool)]), {I: int64(g%5) - 1}}}}}}}
}

func runC11(c *C11Case) (string, c11Facts) {
	facts := c11Facts{goroutines: c.G}
	pool := c.pool()
	np := len(pool)
	// ---- solo results (the oracle), fresh state ----
	// (in the process that leaves the library's default cache untouched the solo pass runs AFTER the
	// goroutines, so that the very first validations of the process are the concurrent ones)
	solo := make([]outcome, np)
	unordered := make([]bool, np)
	privSolo := make([]outcome, c.G)
	soloPass := func() string {
		freshState()
		for i, call := range pool {
			solo[i] = call.prepare().run()
			if solo[i].Panic != "" {
				return fmt.Sprintf("pool call %d panics when run alone: %s", i, solo[i].Panic)
			}
		}
		if c.Private {
			for g := 0; g < c.G; g++ {
				privSolo[g] = privateCall(g).prepare().run()
			}
		}
		return ""
	}
	for i, call := range pool {
		_, unordered[i] = call.predict()
	}
	if proxyInstalled {
		if m := soloPass(); m != "" {
			return m, facts
		}
	}
	// ---- build everything before the goroutines start ----
	var evictions int64
	if proxyInstalled {
		proxy.set(backendFor(c.Cache, &evictions))
	}
	setProcs(c.Procs)
	type worker struct {
		idx   []int
		prep  []*prepared // one privately built input per pool entry
		priv  *prepared
		out   []outcome
		pout  []outcome
		panic interface{}
	}
	ws := make([]*worker, c.G)
	users := make([]int, np)
	for g := range ws {
		w := &worker{idx: c.stream(g, np), prep: make([]*prepared, np)}
		seen := map[int]bool{}
		for _, i := range w.idx {
			if !seen[i] {
				seen[i] = true
				users[i]++
				w.prep[i] = pool[i].prepare()
			}
		}
		if c.Private {
			w.priv = privateCall(g).prepare()
		}
		w.out = make([]outcome, len(w.idx))
		ws[g] = w
		facts.calls += len(w.idx)
	}
	for i, n := range users {
		if n >= 2 && pool[i].S != nil {
			facts.sharedTypeConcurrently = true
		}
	}
	start := make(chan struct{})
	var wg sync.WaitGroup
	for g := range ws {
		wg.Add(1)
		go func(w *worker) {
			defer wg.Done()
			defer func() {
				if p := recover(); p != nil {
					w.panic = p
				}
			}()
			<-start
			for n, i := range w.idx {
				w.out[n] = w.prep[i].run()
				if w.priv != nil && n%7 == 3 {
					w.pout = append(w.pout, w.priv.run())
				}
			}
		}(ws[g])
	}
	close(start)
	if done, _, stacks := waitWatchdog(&wg, 180*time.Second); !done {
		if strings.Contains(stacks, "protoc-go-valid/valid.") && (strings.Contains(stacks, "sync.(*") || strings.Contains(stacks, "[chan send") || strings.Contains(stacks, "[chan receive") || strings.Contains(stacks, "[select")) {
			return "deadlock: after 180s the workers are still blocked inside the library:\n" + firstLines(stacks, 60), facts
		}
		return "INCONCLUSIVE: watchdog fired but the workers are not blocked in the library", facts
	}
	facts.evictions = atomic.LoadInt64(&evictions)
	if !proxyInstalled {
		if m := soloPass(); m != "" {
			return m, facts
		}
	}
	// ---- compare with the solo results ----
	for g, w := range ws {
		if w.panic != nil {
			return fmt.Sprintf("goroutine %d panicked outside a call: %v", g, w.panic), facts
		}
		for n, i := range w.idx {
			if !sameOutcome(w.out[n], solo[i], unordered[i]) {
				return fmt.Sprintf("goroutine %d, call %d (pool entry %d, %s): concurrent result %v differs from the result of the same call run alone %v", g, n, i, describeCall(pool[i]), w.out[n], solo[i]), facts
			}
		}
		for n, o := range w.pout {
			if !sameOutcome(o, privSolo[g], false) {
				return fmt.Sprintf("goroutine %d, private-type call %d: concurrent result %v differs from the solo result %v", g, n, o, privSolo[g]), facts
			}
		}
		// inputs must be untouched by the concurrent calls
		for i, p := range w.prep {
			if p != nil {
				if m := p.inputsUnchanged(pool[i]); m != "" {
					return fmt.Sprintf("goroutine %d, pool entry %d: %s", g, i, m), facts
				}
			}
		}
	}
	return "", facts
}

func describeCall(c *Call) string {
	if c.H != nil {
		return "helper " + c.H.Name
	}
	if c.V != nil {
		return fmt.Sprintf("%s %s %v", c.V.Carrier, c.V.T.K, c.V.Rules)
	}
	return fmt.Sprintf("%s tag=%s rm=%d fns=%v type=%s", c.S.Entry, c.S.tagName(), len(c.S.Unscoped)+len(c.S.PerType), c.S.CallFns, shortType(c.typeKey()))
}

func genC11Case(t *rapid.T) *C11Case {
	mg := &msgGen{mode: 3}
	c := &C11Case{
		Cache:   rapid.SampledFrom([]string{"lru2", "lru2", "lru8", "lru512", "syncmap", "miss"}).Draw(t, "cache"),
		Procs:   rapid.SampledFrom([]int{16, 16, 4, 2}).Draw(t, "procs"),
		G:       rapid.SampledFrom([]int{2, 3, 4, 8, 8, 16, 32, 32, 100}).Draw(t, "goroutines"), // (100: "any number" - more callers at once than any small internal bound)
		Len:     rapid.IntRange(30, ev.Pick(400, 2000)).Draw(t, "callsPerGoroutine"),
		Salt:    rapid.IntRange(0, 1<<20).Draw(t, "salt"),
		Private: rapid.Bool().Draw(t, "private"),
		BankTag: rapid.SampledFrom(multiTags).Draw(t, "bankTag"),
	}
	if c.G > 32 && c.Len > 60 {
		c.Len = 60
	}
	c.Fresh = rapid.SampledFrom([]int{0, 10, 30, 80}).Draw(t, "freshRounds")
	c.BankFrom = rapid.IntRange(0, bankSize-1).Draw(t, "bankFrom")
	c.BankN = rapid.IntRange(0, 30).Draw(t, "bankN")
	if c.Cache == "lru512" && rapid.Bool().Draw(t, "exceedDefault") {
		c.BankN = rapid.IntRange(520, 600).Draw(t, "bankBig")
		c.Len = ev.Pick(1500, 4000)
	}
	n := rapid.IntRange(2, 10).Draw(t, "poolSize")
	if rapid.IntRange(0, 7).Draw(t, "hotLoop") == 5 {
		// a hot loop: a few small, cached types and nothing else, validated by several goroutines tens of
		// thousands of times each (a lock-free shortcut in front of the cache that is wrong once in 10^5
		// calls is wrong here)
		n = 0
		c.Cache = rapid.SampledFrom([]string{"lru512", "lru8", "syncmap"}).Draw(t, "hotCache")
		c.BankN = rapid.IntRange(2, 4).Draw(t, "hotTypes")
		c.G = rapid.SampledFrom([]int{3, 4, 8, 16}).Draw(t, "hotGoroutines")
		c.Len = ev.Pick(20000, 100000)
		c.Procs = rapid.SampledFrom([]int{16, 4, 8}).Draw(t, "hotProcs")
		c.Private, c.Fresh = false, 0
		if rapid.Bool().Draw(t, "hotCollections") {
			c.Hot = "collections" // the same, with top-level slices / maps of the small types
		} else {
			c.Hot = "plain"
		}
	}
	for i := 0; i < n; i++ {
		switch rapid.IntRange(0, 9).Draw(t, "specKind") {
		case 8: // exported helpers run next to the validations (shared buffer pool), incl. the JSON dumper's error path
			c.Pool = append(c.Pool, &Call{H: &HelperCall{Name: rapid.SampledFrom([]string{"dump", "dumpjson", "dumpjson-bad", "dumpjson-bad", "explain", "genkv", "split", "strescape", "urlforfn", "norules", "urlforfn"}).Draw(t, "helper"), Arg: genString(t, "harg", true)}})
		case 6, 7: // one catalogue rule with several argument / value variants
			rule := rapid.SampledFrom(c05RuleNames).Draw(t, "familyRule")
			for j := rapid.IntRange(2, 4).Draw(t, "familySize"); j > 0; j-- {
				sc, _ := genC05CaseFor(t, rule)
				c.Pool = append(c.Pool, &Call{V: sc})
			}
		case 0, 1: // synthesised multi-tag type, several tags / overrides / per-call functions on the same type
			g, ty := genMultiTagType(t, mg, rapid.IntRange(0, 2).Draw(t, "depth"))
			k := rapid.IntRange(1, 3).Draw(t, "variants")
			// a tag that names a rule only some of the variants define (the others meet an unknown name)
			tagFn := rapid.IntRange(0, 2).Draw(t, "tagFn") == 0 && addTagFn(&ty)
			for j := 0; j < k; j++ {
				s := &StructCase{Root: desc.Ptr(ty), Val: desc.V{E: []desc.V{g.genValueFor(ty, 0)}}}
				if tagFn {
					ev.Class("pool entries on a type whose tag names a rule only some calls define")
				}
				if tagFn && rapid.Bool().Draw(t, "bringTagFn") {
					s.CallFns = []string{"cfn1"}
				}
				if rapid.Bool().Draw(t, "hasOv") {
					s.Unscoped = genOverride(t, ty, mg)
					for _, f := range ty.Fields {
						if _, ok := s.Unscoped[f.Name]; ok && rapid.Bool().Draw(t, "fnInOv") {
							name := rapid.SampledFrom([]string{"phone", "cfn1", "shadowed"}).Draw(t, "fnName")
							s.Unscoped[f.Name] += "," + name
							s.CallFns = append(s.CallFns, name)
							break
						}
					}
				}
				if tag := rapid.SampledFrom(callTags).Draw(t, "tag"); tag != "valid" {
					s.Tag = tag
				}
				s.pickEntry(rapid.IntRange(0, 7).Draw(t, "entry"))
				c.Pool = append(c.Pool, &Call{S: s})
			}
		case 2, 3: // shared named types with per-type rule sets (incl. groups through Mid/Leaf G fields via tags? no: RMs)
			s := genNamedCase(t, namedOpts{roots: []string{"Mid", "Leaf", "Top", "Tree"}, marks: []string{"required", "exist", "-"},
				msgMode: 3, maxDepth: 2, density: 6, extra: []string{"cfn1", "gcustom1", "shadowed", "nosuch"}, unscoped: false,
				topShapes: []string{"ptr", "ptr", "val", "slice", "mapstr"}})
			if rapid.Bool().Draw(t, "namedFns") {
				s.CallFns = []string{"cfn1"}
			}
			s.pickEntry(rapid.IntRange(0, 7).Draw(t, "entry"))
			c.Pool = append(c.Pool, &Call{S: s})
		case 9:
			// two distinct types with one printed name and different rules, validated side by side
			for _, tn := range []string{"Item2A", "Item2B"} {
				s := &StructCase{Root: desc.Ptr(desc.Named(tn)), Entry: "Struct", Val: desc.V{E: []desc.V{{E: []desc.V{
					desc.Str(rapid.SampledFrom([]string{"", "a"}).Draw(t, "i2Name")), {I: int64(rapid.IntRange(0, 9).Draw(t, "i2N"))}}}}}}
				c.Pool = append(c.Pool, &Call{S: s})
			}
		case 4:
			tag := rapid.SampledFrom(multiTags).Draw(t, "mtag")
			s := &StructCase{Root: desc.Ptr(desc.Named("Multi")), Entry: "ValidateStruct", Val: desc.V{E: []desc.V{{E: []desc.V{
				desc.Str(rapid.SampledFrom([]string{"", "a", "abcd", "abcdefg"}).Draw(t, "mA")), {I: int64(rapid.IntRange(0, 12).Draw(t, "mB"))},
				desc.Str(rapid.SampledFrom([]string{"", "ab", "13812345678"}).Draw(t, "mC"))}}}}}
			if tag != "valid" {
				s.Tag = tag
			}
			c.Pool = append(c.Pool, &Call{S: s})
		default:
			c.Pool = append(c.Pool, &Call{V: genScalarCall(t, mg)})
			if rapid.IntRange(0, 2).Draw(t, "commonVarCalls") == 1 {
				// several Var validators alive at once whose rule lists start with the same shared prefix slice
				name := rapid.SampledFrom([]string{"A", "B"}).Draw(t, "commonName")
				for j := rapid.IntRange(2, 3).Draw(t, "commonCalls"); j > 0; j-- {
					kind := rapid.SampledFrom([]string{"string", "int"}).Draw(t, "cvKind")
					v := &ScalarCase{T: desc.Scalar(kind), Val: genScalar(t, kind, "cv", true), Carrier: "var", Common: name}
					m, _ := measureOf(kind, v.Val)
					v.Rules = append(append([]string(nil), commonRules[name]...), genSizeRule(t, m, "cvsz")+mg.next(t))
					c.Pool = append(c.Pool, &Call{V: v})
				}
			}
		}
	}
	return c
}

func c11Sample(c *C11Case) interface{} {
	var specs []string
	for i, call := range c.Pool {
		if i >= 8 {
			break
		}
		specs = append(specs, describeCall(call))
	}
	return map[string]interface{}{"cache": c.Cache, "gomaxprocs": c.Procs, "goroutines": c.G, "calls_per_goroutine": c.Len,
		"pool_size": len(c.Pool) + c.BankN, "bank_types": c.BankN, "private_types": c.Private, "first_specs": specs}
}

func c11Once(t ev.TB, c *C11Case, sub string) {
	ev.WriteReplay("C11", "race-detector", c, "the race detector reported a data race (or the process died) while this case was running; re-run it under -race")
	msg, facts := runC11(c)
	if msg == "" && c.Fresh > 0 {
		var rounds int
		msg, rounds = runC11Fresh(c)
		ev.ClassN("fresh-type rounds (new type, new tag names, first use concurrent)", int64(rounds))
	}
	ev.ClearReplay()
	if strings.HasPrefix(msg, "INCONCLUSIVE") {
		inconclusive(msg)
	}
	ev.Class(fmt.Sprintf("goroutines=%d", facts.goroutines))
	ev.Class("cache=" + c.Cache)
	if c.Hot != "" {
		ev.Class("hot loop over a few cached types (" + c.Hot + ")")
	}
	ev.ClassN("concurrent calls", int64(facts.calls))
	ev.ClassN("cache evictions during runs", facts.evictions)
	if facts.sharedTypeConcurrently {
		ev.Class("same type validated by >=2 goroutines")
	}
	b, _ := json.Marshal(c)
	ev.Case(string(b), facts.sharedTypeConcurrently && facts.evictions > 0, func() interface{} { return c11Sample(c) })
	if msg != "" {
		ev.Fail(t, "C11", sub, c, "%s", msg)
	}
}

func TestC11(t *testing.T) {
	if !proxyInstalled {
		t.Skip("needs the proxy cache")
	}
	cleanup := setupFS()
	defer cleanup()
	rapid.Check(t, func(t *rapid.T) { c11Once(t, genC11Case(t), "concurrent-vs-solo") })
}

// TestC11Default runs in a process that never calls SetStructTypeCache: the library's own
// default cache object serves the goroutines, and the first validations of the process are
// concurrent ones (lazy initialisation of shared state would race exactly there).
func TestC11Default(t *testing.T) {
	if proxyInstalled {
		t.Skip("runs in the process that leaves the default cache in place")
	}
	cleanup := setupFS()
	defer cleanup()
	rapid.Check(t, func(t *rapid.T) {
		c := genC11Case(t)
		c.Cache = "default"
		ev.Class("default-cache-process")
		if os.Getenv("VERIF_SYNCMAP") != "" {
			ev.Class("a *sync.Map installed directly as the type cache")
		}
		c11Once(t, c, "default-cache")
	})
}

func TestC11Replay(t *testing.T) {
	cleanup := setupFS()
	defer cleanup()
	for _, f := range ev.ReplayFiles() {
		rp, err := ev.LoadReplay(f)
		if err != nil {
			t.Fatalf("replay %s: %v", f, err)
		}
		var c C11Case
		if err := json.Unmarshal(rp.Case, &c); err != nil {
			t.Fatalf("replay %s: %v", f, err)
		}
		if c.Procs <= 0 {
			c.Procs = 16
		}
		if c.Cache == "" {
			c.Cache = "lru2"
		}
		reps := c.Reps
		if reps <= 0 {
			reps = 20
		}
		ev.Class("replayed")
		for i := 0; i < reps; i++ {
			c11Once(t, &c, "replay")
		}
	}
}
