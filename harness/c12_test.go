package harness

import (
	"encoding/json"
	"fmt"
	"reflect"
	"strings"
	"testing"

	"gitee.com/xuesongtao/protoc-go-valid/valid"
	"pgregory.net/rapid"

	"verifharness/desc"
	"verifharness/ev"
)

// ---- C12: a call's result depends only on its own arguments and stays fixed afterwards ----
//
// A case is a sequence of heterogeneous calls (several types, tag names, rule
// maps, per-call functions named like built-ins, failing and succeeding, all
// four entry points), a permutation of it and a tail of filler calls.
//   (1) fresh-state reference: before each call the library is made to forget
//       everything (new empty type cache behind the proxy, sync.Pools flushed by
//       two GCs); the same call inside any history must give that result;
//   (1b) the reference itself must agree with the independent model;
//   (2) the permuted sequence gives the same per-call results;
//   (3) the input value and every rule map handed to the call are unchanged;
//   (4) every error string, every token returned by ValidNamesSplit /
//       ParseValidNameKV / GenValidKV / GetOnlyExplainErr and every string a
//       per-call function received is cloned on receipt and compared with the
//       retained original after the filler calls (and again, through a
//       process-wide ring, after the thousands of calls of later cases).

type C12Case struct {
	Calls  []*Call `json:"calls"`
	Perm   []int   `json:"perm"`
	Filler int     `json:"filler"`
}

// retained is a string handed out by the library together with a private copy
// taken on receipt.
type retained struct {
	got, clone string
	origin     string
}

func retain(list *[]retained, s, origin string) {
	if s == "" {
		return
	}
	*list = append(*list, retained{got: s, clone: strings.Clone(s), origin: origin})
}

func checkRetained(list []retained) string {
	for _, r := range list {
		if r.got != r.clone {
			return fmt.Sprintf("a string handed out by the library changed afterwards: was %q, now reads %q (%s)", r.clone, r.got, r.origin)
		}
	}
	return ""
}

// ring keeps handed-out strings across cases (bounded).
var ring []retained

const ringMax = 4000

// recorder: strings that per-call functions received in this case.
var fnReceived *[]retained

func recordingFn(level, name string) valid.CommonValidFn {
	inner := customFn(level, name)
	return func(errBuf *strings.Builder, validName, objName, fieldName string, tv reflect.Value) {
		if fnReceived != nil {
			retain(fnReceived, validName, "rule text given to per-call function "+name)
			retain(fnReceived, objName, "object name given to per-call function "+name)
			retain(fnReceived, fieldName, "field name given to per-call function "+name)
		}
		inner(errBuf, validName, objName, fieldName, tv)
	}
}

// ruleTexts lists every rule string of a call.
func (c *Call) ruleTexts() []string {
	var out []string
	if c.H != nil {
		return nil
	}
	if c.V != nil {
		return []string{c.V.rules()}
	}
	for _, v := range c.S.Unscoped {
		out = append(out, v)
	}
	for _, rm := range c.S.PerType {
		for _, v := range rm {
			out = append(out, v)
		}
	}
	sortStrings(out)
	return out
}

func tokensOf(list *[]retained, rule string) {
	for _, tok := range valid.ValidNamesSplit(rule) {
		retain(list, tok, "token of ValidNamesSplit("+fmt.Sprintf("%q", rule)+")")
		k, v, m := valid.ParseValidNameKV(tok)
		retain(list, k, "key of ParseValidNameKV("+fmt.Sprintf("%q", tok)+")")
		retain(list, v, "value of ParseValidNameKV("+fmt.Sprintf("%q", tok)+")")
		retain(list, m, "message of ParseValidNameKV("+fmt.Sprintf("%q", tok)+")")
		if k != "" && !strings.ContainsAny(k, "|=") {
			retain(list, valid.GenValidKV(k, v, "msg "+k), "GenValidKV("+k+")")
		}
	}
}

type c12Facts struct {
	helpers   int
	followUp  bool // a call with RM / per-call fn / failing result directly followed by a call on the same type without them
	failing   int
	withRM    int
	withFns   int
	scalar    int
	unordered int
}

func (c *C12Case) facts(refs []outcome) c12Facts {
	var f c12Facts
	for i, call := range c.Calls {
		if call.H != nil {
			f.helpers++
			continue
		}
		if !refs[i].Nil {
			f.failing++
		}
		if call.V != nil {
			f.scalar++
			if len(call.V.CallFns) > 0 {
				f.withFns++
			}
			if i > 0 && c.Calls[i-1].V != nil && c.Calls[i-1].V.Carrier == call.V.Carrier && len(c.Calls[i-1].V.CallFns) > 0 && len(call.V.CallFns) == 0 {
				f.followUp = true
			}
			if i > 0 && c.Calls[i-1].V != nil && c.Calls[i-1].V.Carrier == call.V.Carrier && !refs[i-1].Nil && len(call.V.Rules) < len(c.Calls[i-1].V.Rules) {
				f.followUp = true
			}
			continue
		}
		s := call.S
		if len(s.Unscoped) > 0 || len(s.PerType) > 0 {
			f.withRM++
		}
		if len(s.CallFns) > 0 {
			f.withFns++
		}
		if i > 0 && c.Calls[i-1].S != nil && c.Calls[i-1].typeKey() == call.typeKey() {
			p := c.Calls[i-1].S
			loaded := len(p.Unscoped) > 0 || len(p.PerType) > 0 || len(p.CallFns) > 0 || !refs[i-1].Nil
			bare := len(s.Unscoped) == 0 && len(s.PerType) == 0 && len(s.CallFns) == 0
			if loaded && bare {
				f.followUp = true
			}
		}
	}
	return f
}

// fillerCalls executes n cheap calls of all entry points (they recycle the
// pooled validators and buffers many times).
func fillerCalls(n int) {
	for i := 0; i < n; i++ {
		switch i % 7 {
		case 0:
			bankCall(i, multiTags[i%3]).prepare().run()
		case 1:
			_ = valid.Var(strPool[i%len(strPool)], "to=1~3|filler"+fmt.Sprint(i), "re='^[a-z,]+$'", "in=(a/b)")
		case 2:
			_ = valid.Map(map[string]string{"k": strPool[i%len(strPool)], "j": ""}, valid.RM{"k": "ge=2,prefix=a", "j": "required|填写"})
		case 3:
			_ = valid.Url("http://x.y/z?k="+fmt.Sprint(i)+"&j=", valid.RM{"k": "int,le=3", "j": "required"})
		case 5:
			// the markers of nested validation on a scalar (a rule-writing error) with and without a message
			_ = valid.Struct(&struct {
				A, C, D, E, F, G, H, I string `valid:"exist|filler msg"`
				B                      int    `valid:"exist"`
			}{"x", "x", "x", "x", "x", "x", "x", "x", i + 1})
		default:
			_ = valid.ValidNamesSplit("required,re='a,b" + fmt.Sprint(i) + "',to=1~2|x")
			_ = valid.GetOnlyExplainErr(`"A" input "1", explain: filler; "B" input "", 说明: 填充`)
		}
	}
}

func checkC12(c *C12Case) (string, c12Facts) {
	n := len(c.Calls)
	refs := make([]outcome, n)
	unordered := make([]bool, n)
	var held []retained
	fnReceived = &held
	defer func() { fnReceived = nil }()

	// (1) fresh-state references (+ independent model)
	for i, call := range c.Calls {
		freshState()
		refs[i] = call.prepare().run()
		res, u := call.predict()
		unordered[i] = u
		if m := call.againstModel(res, refs[i]); m != "" {
			return fmt.Sprintf("call %d in a fresh state disagrees with the model: %s", i, m), c12Facts{}
		}
	}
	facts := c.facts(refs)

	runOrder := func(order []int, label string, retainStrings bool) string {
		freshState()
		for pos, i := range order {
			call := c.Calls[i]
			p := call.prepare()
			o := p.run()
			if !sameOutcome(o, refs[i], unordered[i]) {
				prev := "first in the sequence"
				if pos > 0 {
					prev = fmt.Sprintf("preceded by call %d", order[pos-1])
				}
				return fmt.Sprintf("%s: call %d (%s) gives %v, in a fresh state it gives %v", label, i, prev, o, refs[i])
			}
			if m := p.inputsUnchanged(call); m != "" {
				return fmt.Sprintf("%s: call %d: %s", label, i, m)
			}
			if retainStrings {
				retain(&held, o.Text, fmt.Sprintf("error text of call %d", i))
				for _, r := range call.ruleTexts() {
					tokensOf(&held, r)
					// the quote-aware path of the splitter (its final token is the zero-copy one)
					tokensOf(&held, "in=('a,b'/c),"+r)
					tokensOf(&held, r+",re='^x,y$'|last of "+fmt.Sprint(i))
				}
				if !o.Nil {
					retain(&held, valid.GetOnlyExplainErr(o.Text), fmt.Sprintf("GetOnlyExplainErr of call %d", i))
				}
			}
		}
		return ""
	}
	order := make([]int, n)
	for i := range order {
		order[i] = i
	}
	// (1)+(3)+(4a) the sequence as generated
	if m := runOrder(order, "sequence", true); m != "" {
		return m, facts
	}
	// (2) the permuted sequence
	if m := runOrder(c.Perm, "permuted sequence", false); m != "" {
		return m, facts
	}
	// once more without a fresh state in between (pools and cache as the permuted run left them)
	for _, i := range order {
		if o := c.Calls[i].prepare().run(); !sameOutcome(o, refs[i], unordered[i]) {
			return fmt.Sprintf("second pass: call %d gives %v, in a fresh state it gives %v", i, o, refs[i]), facts
		}
	}
	// (4b) filler calls, then re-read everything handed out
	fillerCalls(c.Filler)
	if m := checkRetained(held); m != "" {
		return m, facts
	}
	// ... and the calls give what they gave in a fresh state, however many calls lie in between
	for _, i := range order {
		if o := c.Calls[i].prepare().run(); !sameOutcome(o, refs[i], unordered[i]) {
			return fmt.Sprintf("after %d filler calls: call %d gives %v, in a fresh state it gives %v", c.Filler, i, o, refs[i]), facts
		}
	}
	if m := checkRetained(ring); m != "" {
		return m + " [retained from an earlier case of this process]", facts
	}
	for _, r := range held {
		if len(ring) < ringMax {
			ring = append(ring, r)
		} else {
			ring[(len(held)*31+len(r.got))%ringMax] = r
		}
	}
	return "", facts
}

// c12Variant derives a follow-up call on the same type from a base call.
func c12Variant(t *rapid.T, base *Call, regen func() (desc.V, bool)) *Call {
	if base.H != nil {
		return &Call{H: &HelperCall{Name: base.H.Name, Arg: genString(t, "harg", true)}}
	}
	if base.V != nil {
		cp := *base.V
		switch rapid.IntRange(0, 5).Draw(t, "svariant") {
		case 4, 5: // the same rules without the per-call functions
			cp.CallFns = nil
		case 0: // fewer rules
			if len(cp.Rules) > 1 {
				cp.Rules = cp.Rules[:len(cp.Rules)-1]
			}
		case 1:
			if cp.Carrier == "var" {
				cp.Rules = nil // "have no set rule" unless something leaked
			}
		case 2:
			cp.Val = desc.V{}
		}
		return &Call{V: &cp}
	}
	cp := *base.S
	switch rapid.IntRange(0, 7).Draw(t, "variant") {
	case 0:
	case 7:
		// the caller keeps ONE rule-map object, edits a rule in place and calls again
		if len(cp.Unscoped) > 0 {
			if base.S.RMSlot == "" {
				base.S.RMSlot = "slot-" + shortType(base.typeKey())
			}
			cp.RMSlot = base.S.RMSlot
			cp.Unscoped = map[string]string{}
			edited := false
			for _, k := range sortedKeys(base.S.Unscoped) {
				cp.Unscoped[k] = base.S.Unscoped[k]
				if !edited && len(cp.CallFns) == 0 {
					cp.Unscoped[k] = rapid.SampledFrom([]string{"required|edited", "to=1~1|edited", "noeq=0|edited", "in=(zz)|edited"}).Draw(t, "editedRule")
					edited = true
				}
			}
			cp.pickEntry(rapid.IntRange(0, 7).Draw(t, "ventry7"))
			cp.Twice = false
			return &Call{S: &cp}
		}
	case 1:
		cp.Unscoped, cp.PerType = nil, nil
	case 2:
		cp.CallFns = nil
	case 3:
		cp.Unscoped, cp.PerType, cp.CallFns = nil, nil, nil
	case 4:
		if len(cp.PerType) == 0 {
			cp.Tag = rapid.SampledFrom([]string{"", "alipay", "wechat", emptyTag, "Valid"}).Draw(t, "retag")
		}
	case 5:
		if v, ok := regen(); ok {
			cp.Val = v
			cp.Unscoped, cp.PerType, cp.CallFns = nil, nil, nil
		}
	default:
		cp.Unscoped, cp.PerType, cp.CallFns = nil, nil, nil
		cp.Val = zeroOfRoot(cp.Root, cp.Val)
	}
	cp.pickEntry(rapid.IntRange(0, 7).Draw(t, "ventry"))
	if (cp.Unscoped != nil || len(cp.PerType) > 0) && rapid.IntRange(0, 3).Draw(t, "twice") == 0 {
		cp.Entry, cp.Twice = "VStruct", true // rule sets registered twice: decoy first, real one second
	} else {
		cp.Twice = false
	}
	return &Call{S: &cp}
}

// zeroOfRoot keeps the shape of pointers but zeroes the struct behind them.
func zeroOfRoot(root desc.T, v desc.V) desc.V {
	if root.K == "ptr" && len(v.E) == 1 {
		return desc.V{E: []desc.V{zeroOfRoot(*root.Elem, v.E[0])}}
	}
	return desc.V{}
}

func genC12Case(t *rapid.T) *C12Case {
	mg := &msgGen{mode: 3}
	type base struct {
		call  *Call
		regen func() (desc.V, bool)
		fresh func() *Call // rule-family bases: every use draws new arguments and a new value for the same rule
		then  *Call        // a call that directly follows every use of this base
	}
	var bases []base
	nb := rapid.IntRange(1, 4).Draw(t, "nBases")
	for i := 0; i < nb; i++ {
		switch rapid.IntRange(0, 9).Draw(t, "baseKind") {
		case 9:
			// a call that is turned down before anything is validated (nil / typed nil / wrong kind of
			// source) but came loaded with rules, directly followed by an ordinary call of the same entry
			// point: what the rejected call brought along stays with it
			if rapid.IntRange(0, 2).Draw(t, "ruleLessAfterLoaded") == 1 {
				// a Url / Map call loaded with rules, directly followed by validators that are given NO rule
				// set (UrlForFn, NewVMap().Valid ...): they have nothing to judge by
				loaded := genScalarCall(t, mg)
				loaded.Carrier = rapid.SampledFrom([]string{"url", "map"}).Draw(t, "loadedCarrier")
				loaded.T, loaded.Val, loaded.BadSrc, loaded.Missing, loaded.ListMissing, loaded.Again = desc.Scalar("string"), desc.Str(""), "", false, nil, nil
				loaded.Rules = append([]string{"required|from the loaded call"}, loaded.Rules...)
				loaded.NoModel = true
				bases = append(bases, base{call: &Call{V: loaded}, regen: func() (desc.V, bool) { return desc.V{}, false },
					then: &Call{H: &HelperCall{Name: rapid.SampledFrom([]string{"urlforfn", "norules"}).Draw(t, "ruleLess"), Arg: "x"}}})
				break
			}
			if rapid.Bool().Draw(t, "rejectedVar") {
				bad := genScalarCall(t, mg)
				bad.Carrier, bad.CallFns, bad.Others, bad.Again, bad.Missing, bad.ListMissing = "var", nil, nil, nil, false, nil
				bad.BadSrc, bad.NoModel = rapid.SampledFrom([]string{"nil", "typednil", "struct", "map"}).Draw(t, "badSrcKind"), true
				good := genScalarCall(t, mg)
				good.Carrier, good.Others, good.Again, good.BadSrc, good.Missing, good.ListMissing = "var", nil, nil, "", false, nil
				if good.BadSrc == "" && !strings.Contains(strings.Join(good.Rules, ","), "'") {
					good.NoModel = false
				}
				bases = append(bases, base{call: &Call{V: bad}, regen: func() (desc.V, bool) { return desc.V{}, false }, then: &Call{V: good}})
				break
			}
			g, ty := genMultiTagType(t, mg, 1)
			bad := &StructCase{Root: desc.Ptr(ty), Val: desc.V{Nil: true}, NoModel: true}
			if rapid.Bool().Draw(t, "nilInside") {
				bad.Root, bad.Val = desc.Ptr(desc.Ptr(ty)), desc.V{E: []desc.V{{Nil: true}}}
			}
			bad.Unscoped = genOverride(t, ty, mg)
			if len(bad.Unscoped) == 0 {
				bad.Unscoped = map[string]string{"A": "required|from the rejected call", "B": "required|from the rejected call"}
			}
			bad.pickEntry(rapid.IntRange(0, 7).Draw(t, "badEntry"))
			good := &StructCase{Root: desc.Ptr(ty), Val: desc.V{E: []desc.V{g.genValueFor(ty, 0)}}}
			good.pickEntry(rapid.IntRange(0, 7).Draw(t, "goodEntry"))
			bases = append(bases, base{call: &Call{S: bad}, regen: func() (desc.V, bool) { return desc.V{}, false }, then: &Call{S: good}})
		case 7:
			// an exported helper (they draw from the same buffer pool as the validators), incl. the error path of the JSON dumper
			h := &HelperCall{Name: rapid.SampledFrom([]string{"dump", "dumpjson", "dumpjson-bad", "dumpjson-bad", "explain", "genkv", "split", "timefmt", "strescape", "urlforfn", "norules", "urlforfn"}).Draw(t, "helper"), Arg: genString(t, "harg", true)}
			bases = append(bases, base{call: &Call{H: h}, regen: func() (desc.V, bool) { return desc.V{}, false }})
		case 8:
			// the error path of the JSON dumper (a value encoding/json cannot encode), directly followed by
			// a struct call with either / botheq groups (they build their clauses in pooled buffers too)
			gc := genC17Struct(t)
			gc.pickEntry(rapid.IntRange(0, 7).Draw(t, "gentry"))
			if rapid.IntRange(0, 2).Draw(t, "groupThenMapGroup") == 0 {
				// the struct call with groups, directly followed by a Map call whose only rule is a group that fails (one
				// member, empty): group records of the struct call must not show in the map's clause
				mg := &ScalarCase{T: desc.Scalar("string"), Val: desc.Str(""), Rules: []string{rapid.SampledFrom([]string{"either=5", "botheq=5", "either=1"}).Draw(t, "mapGroupRule")}, RePats: map[string]string{}, Carrier: "map"}
				bases = append(bases, base{call: &Call{S: gc}, regen: func() (desc.V, bool) { return desc.V{}, false }, then: &Call{V: mg}})
				break
			}
			bases = append(bases, base{call: &Call{H: &HelperCall{Name: "dumpjson-bad", Arg: genString(t, "harg", true)}}, regen: func() (desc.V, bool) { return desc.V{}, false }, then: &Call{S: gc}})
		case 5, 6:
			// one rule of the catalogue used several times with different arguments
			// (separators, option lists, patterns, bounds) and values: state kept inside a
			// rule's implementation would carry over from one use to the next
			rule := rapid.SampledFrom(append([]string{"re", "datetime", "in"}, c05RuleNames...)).Draw(t, "familyRule")
			fresh := func() *Call {
				if rule == "re" && rapid.Bool().Draw(t, "reSiblings") {
					// patterns that differ only after their first '|' (a cache keyed by a prefix of the rule text would mix them up)
					p := rapid.SampledFrom([]struct{ pat, hit, miss string }{{`^(cat|cow)$`, "cow", "dog"}, {`^(cat|dog)$`, "dog", "cow"}, {`^(cat|dog|cow)$`, "cow", "cot"}, {`^(cat|c.w)$`, "cxw", "dog"}}).Draw(t, "sibling")
					item := "re='" + p.pat + "'" + rapid.SampledFrom([]string{"", "|m1", "|格式不对"}).Draw(t, "reMsg")
					val := p.hit
					if rapid.Bool().Draw(t, "reMiss") {
						val = p.miss
					}
					return &Call{V: &ScalarCase{T: desc.Scalar("string"), Val: desc.Str(val), Rules: []string{item}, RePats: map[string]string{item: p.pat},
						Carrier: rapid.SampledFrom([]string{"var", "tag", "rm", "map", "url"}).Draw(t, "reCarrier")}}
				}
				sc, _ := genC05CaseFor(t, rule)
				return &Call{V: sc}
			}
			bases = append(bases, base{call: fresh(), regen: func() (desc.V, bool) { return desc.V{}, false }, fresh: fresh})
		case 0, 1: // synthesised multi-tag type with override + per-call functions named like built-ins
			g, ty := genMultiTagType(t, mg, rapid.IntRange(0, 2).Draw(t, "depth"))
			s := &StructCase{Root: desc.Ptr(ty), Val: desc.V{E: []desc.V{g.genValueFor(ty, 0)}}}
			if rapid.IntRange(0, 3).Draw(t, "hasOv") > 0 {
				s.Unscoped = genOverride(t, ty, mg)
				for _, f := range ty.Fields {
					if _, ok := s.Unscoped[f.Name]; ok && rapid.Bool().Draw(t, "fnInOv") {
						name := rapid.SampledFrom([]string{"phone", "cfn1", "shadowed", "email", "reenter", "reenter"}).Draw(t, "fnName")
						s.Unscoped[f.Name] += "," + name
						s.CallFns = append(s.CallFns, name)
						break
					}
				}
			}
			if tag := rapid.SampledFrom(callTags).Draw(t, "tag"); tag != "valid" {
				s.Tag = tag
			}
			s.pickEntry(rapid.IntRange(0, 7).Draw(t, "entry"))
			root := s.Root
			bases = append(bases, base{call: &Call{S: s}, regen: func() (desc.V, bool) { return desc.V{E: []desc.V{g.genValueFor(*root.Elem, 0)}}, true }})
		case 2, 3: // named library types with per-type rule sets
			s := genNamedCase(t, namedOpts{roots: []string{"Mid", "Leaf", "Top", "Tree"}, marks: []string{"required", "exist", "-"},
				msgMode: 3, maxDepth: 2, density: 6, extra: []string{"cfn1", "gcustom1", "shadowed", "nosuch", "phone"}, unscoped: false,
				topShapes: []string{"ptr", "ptr", "val", "slice", "mapstr"}})
			for _, n := range []string{"cfn1", "shadowed", "phone"} {
				if rapid.IntRange(0, 2).Draw(t, "callfn-"+n) == 0 {
					s.CallFns = append(s.CallFns, n)
				}
			}
			s.pickEntry(rapid.IntRange(0, 7).Draw(t, "entry"))
			bases = append(bases, base{call: &Call{S: s}, regen: func() (desc.V, bool) { return desc.V{}, false }})
		default:
			if rapid.IntRange(0, 3).Draw(t, "reentrant") == 2 {
				// a type with either / botheq groups in its tags, and behind the group members a field whose per-call
				// function validates ANOTHER (empty) object of the same type while the outer validation is under way:
				// the outer call's groups are judged by the outer object's members
				bases = append(bases, base{call: &Call{S: genReenterCase(t)}, regen: func() (desc.V, bool) { return desc.V{}, false }})
				break
			}
			bases = append(bases, base{call: &Call{V: genScalarCall(t, mg)}, regen: func() (desc.V, bool) { return desc.V{}, false }})
		}
	}
	c := &C12Case{}
	n := rapid.IntRange(2, 12).Draw(t, "nCalls")
	for i := 0; i < n; i++ {
		b := bases[rapid.IntRange(0, len(bases)-1).Draw(t, "base")]
		if i < len(bases) {
			b = bases[i]
		}
		if b.fresh != nil && rapid.IntRange(0, 3).Draw(t, "familyFresh") > 0 {
			c.Calls = append(c.Calls, b.fresh())
		} else if rapid.IntRange(0, 2).Draw(t, "asIs") == 0 {
			c.Calls = append(c.Calls, b.call)
		} else {
			c.Calls = append(c.Calls, c12Variant(t, b.call, b.regen))
		}
		if b.then != nil {
			c.Calls = append(c.Calls, b.then)
		}
	}
	c.Perm = rapid.Permutation(seq(len(c.Calls))).Draw(t, "perm")
	c.Filler = rapid.SampledFrom([]int{0, 50, 200, 1000, 1000, 12500}).Draw(t, "filler") // (12500: beyond any bound near ten thousand)
	if ev.Thorough() && rapid.IntRange(0, 9).Draw(t, "longTail") == 0 {
		c.Filler = 10000
	}
	return c
}

// genReenterCase: see the "reentrant" base of genC12Case.
func genReenterCase(t *rapid.T) *StructCase {
	str := func(l string) desc.V {
		return desc.Str(rapid.SampledFrom([]string{"", "", "a", "b"}).Draw(t, l))
	}
	num := func(l string) desc.V { return desc.V{I: int64(rapid.IntRange(0, 2).Draw(t, l))} }
	ty := desc.T{K: "struct", Fields: []desc.F{
		{Name: "G1", T: desc.Scalar("string"), Tags: map[string]string{"valid": "either=1"}},
		{Name: "G2", T: desc.Scalar("string"), Tags: map[string]string{"valid": "either=1"}},
		{Name: "N", T: desc.Scalar("int"), Tags: map[string]string{"valid": "botheq=2"}},
		{Name: "M", T: desc.Scalar("int"), Tags: map[string]string{"valid": "botheq=2"}},
		{Name: "Z", T: desc.Scalar("string")},
	}}
	c := &StructCase{Root: desc.Ptr(ty), Val: desc.V{E: []desc.V{{E: []desc.V{str("g1"), str("g2"), num("n"), num("m"), desc.Str("zz")}}}},
		Unscoped: map[string]string{"Z": "reenter"}, CallFns: []string{"reenter"}}
	c.Entry = rapid.SampledFrom([]string{"StructForFns", "VStruct"}).Draw(t, "reenterEntry")
	return c
}

func seq(n int) []int {
	out := make([]int, n)
	for i := range out {
		out[i] = i
	}
	return out
}

func TestC12(t *testing.T) {
	if !proxyInstalled {
		t.Skip("needs the proxy cache")
	}
	cleanup := setupFS()
	defer cleanup()
	rapid.Check(t, func(t *rapid.T) {
		c := genC12Case(t)
		msg, facts := checkC12(c)
		if facts.followUp {
			ev.Class("loaded-call-followed-by-bare-call-on-same-type")
		}
		ev.ClassN("failing-calls", int64(facts.failing))
		ev.ClassN("calls-with-rule-map", int64(facts.withRM))
		ev.ClassN("calls-with-per-call-functions", int64(facts.withFns))
		ev.ClassN("scalar-calls", int64(facts.scalar))
		ev.ClassN("helper-calls", int64(facts.helpers))
		ev.ClassN("calls", int64(len(c.Calls)))
		ev.ClassN("filler-calls", int64(c.Filler))
		b, _ := json.Marshal(c)
		ev.Case(string(b), facts.followUp, func() interface{} { return c12Sample(c) })
		if msg != "" {
			ev.Fail(t, "C12", "history", c, "%s", msg)
		}
	})
	ev.Extra("retained_strings_in_ring_at_exit", len(ring))
}

func c12Sample(c *C12Case) interface{} {
	type step struct {
		Kind  string   `json:"kind"`
		Type  string   `json:"type,omitempty"`
		Tag   string   `json:"tag,omitempty"`
		RM    int      `json:"rule_map_entries,omitempty"`
		Fns   []string `json:"fns,omitempty"`
		Rules []string `json:"rules,omitempty"`
	}
	var steps []step
	for _, call := range c.Calls {
		if call.H != nil {
			steps = append(steps, step{Kind: "helper " + call.H.Name})
			continue
		}
		if call.V != nil {
			steps = append(steps, step{Kind: call.V.Carrier, Type: call.V.T.K, Rules: call.V.Rules})
			continue
		}
		n := len(call.S.Unscoped)
		for _, rm := range call.S.PerType {
			n += len(rm)
		}
		steps = append(steps, step{Kind: call.S.Entry, Type: shortType(call.typeKey()), Tag: call.S.tagName(), RM: n, Fns: call.S.CallFns})
	}
	return map[string]interface{}{"calls": steps, "perm": c.Perm, "filler": c.Filler}
}

func TestC12Replay(t *testing.T) {
	cleanup := setupFS()
	defer cleanup()
	for _, f := range ev.ReplayFiles() {
		rp, err := ev.LoadReplay(f)
		if err != nil {
			t.Fatalf("replay %s: %v", f, err)
		}
		var c C12Case
		if err := json.Unmarshal(rp.Case, &c); err != nil {
			t.Fatalf("replay %s: %v", f, err)
		}
		if len(c.Perm) != len(c.Calls) {
			c.Perm = nil
			for i := len(c.Calls) - 1; i >= 0; i-- {
				c.Perm = append(c.Perm, i)
			}
		}
		ev.Class("replayed")
		if msg, _ := checkC12(&c); msg != "" {
			ev.Fail(t, "C12", "replay", &c, "%s (replay %s)", msg, f)
		}
	}
}
