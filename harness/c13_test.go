package harness

import (
	"encoding/json"
	"fmt"
	"math"
	"net/url"
	"os"
	"reflect"
	"sort"
	"strings"
	"testing"
	"time"
	"unsafe"

	"gitee.com/xuesongtao/protoc-go-valid/valid"
	"pgregory.net/rapid"

	"verifharness/desc"
	"verifharness/ev"
	"verifharness/lib"
)

// ---- C13: validation is total: bad input or bad rules yield an error, never a crash ----

type c13Any struct {
	S   string
	N   int
	F   float64
	B   bool
	U   uint16
	Sl  []string
	Is  []int
	Arr [2]int
	M   map[string]int
	P   *lib.Leaf
	PP  **lib.Leaf
	PS  *string
	I   interface{}
	Fn  func()
	Ch  chan int
	T   time.Time
	PT  *time.Time
	L   lib.Leaf
	Ls  []*lib.Leaf
	ML  map[string]*lib.Leaf
	MI  map[int]lib.Leaf
	C   complex128
	UP  unsafe.Pointer
	E   error
	x   int
	St  struct{}
	AA  [][]lib.Leaf
	MS  map[string][]lib.Leaf
	Up  uintptr
}

type c13emb struct {
	X string
	N int
}

type c13embp struct{ Y string }

type c13hash [32]byte

// c13Host: embedded fields of lower-case struct types (promoted fields are
// reachable in Go, the embedded field itself is unexported), byte arrays.
type c13Host struct {
	c13emb
	*c13embp
	Name string
	BA   [4]byte
	H    c13hash
	HS   []c13hash
	BAA  [2][4]byte
	RM   json.RawMessage
}

// declared (named) container types, as hand-written models are full of them: a named slice of strings, and
// container types that refer to themselves without a struct in between
type c13Err struct{ msg string }

func (e c13Err) Error() string { return "c13: " + e.msg }

type c13Tags []string
type c13Forest []c13Forest
type c13Obj map[string]c13Obj
type c13SelfPtr *c13SelfPtr
type c13MutA []c13MutB
type c13MutB []c13MutA
type c13PtrList *[]c13PtrListElem
type c13PtrListElem struct{ Next c13PtrList }

// c13Decl: a struct whose fields have such types (some unexported, some nil).
type c13Decl struct {
	Tags   c13Tags
	Sorted sort.StringSlice
	Forest c13Forest
	Obj    c13Obj
	forest c13Forest
	PL     c13PtrList
	SP     c13SelfPtr
	Mut    c13MutA
	Name   string
}

var c13Fields = []string{"Sorted", "Forest", "Obj", "PL", "SP", "Mut", "c13emb", "c13embp", "BA", "H", "HS", "BAA", "RM", "S", "N", "F", "B", "U", "Sl", "Is", "Arr", "M", "P", "PP", "PS", "I", "Fn", "Ch", "T", "PT", "L", "Ls", "ML", "MI", "C", "UP", "E", "St", "AA", "MS", "Up"}

func c13Populated() *c13Any {
	s := "abc"
	l := &lib.Leaf{Name: "n", S: "abc", N: 5}
	var nl *lib.Leaf
	now := time.Unix(1700000000, 0)
	return &c13Any{S: "abc", N: 5, F: 1.5, B: true, U: 7, Sl: []string{"a", "b"}, Is: []int{1, 2}, Arr: [2]int{1, 0}, M: map[string]int{"a": 1}, P: l, PP: &nl, PS: &s,
		I: 5, Fn: func() {}, Ch: make(chan int), T: now, PT: &now, L: *l, Ls: []*lib.Leaf{l, nil}, ML: map[string]*lib.Leaf{"a": l, "b": nil}, MI: map[int]lib.Leaf{1: *l}, C: 1 + 2i,
		UP: unsafe.Pointer(l), E: fmt.Errorf("e"), x: 1, AA: [][]lib.Leaf{{*l}}, MS: map[string][]lib.Leaf{"a": {*l}}, Up: 9}
}

// c13Shapes: the directed catalogue of values (nil / wrong-kind / odd shapes).
func c13Shapes() map[string]func() interface{} {
	var nilTree *lib.Tree
	var nilStr *string
	var nilInt *int
	var nilMap map[string]string
	var nilSlice []lib.Leaf
	var nilIface interface{}
	var nilErr error
	pn := &nilTree
	s := "http://a.b/c?k=abc&z=1"
	bad := "http://a.b/c?k=%zz"
	i5 := 5
	pi := &i5
	m := map[string]string{"k": "abc", "z": ""}
	return map[string]func() interface{}{
		"nil":                  func() interface{} { return nil },
		"nil-interface-var":    func() interface{} { return nilIface },
		"nil-error":            func() interface{} { return nilErr },
		"typed-nil-struct-ptr": func() interface{} { return nilTree },
		"ptr-to-nil-ptr":       func() interface{} { return pn },
		"ptr-ptr-ptr-nil":      func() interface{} { return &pn },
		"nil-string-ptr":       func() interface{} { return nilStr },
		"nil-int-ptr":          func() interface{} { return nilInt },
		"nil-map":              func() interface{} { return nilMap },
		"ptr-to-nil-map":       func() interface{} { return &nilMap },
		"nil-slice":            func() interface{} { return nilSlice },
		"ptr-to-nil-slice":     func() interface{} { return &nilSlice },
		"slice-with-nil-elem":  func() interface{} { return []*lib.Tree{nil, {Name: "x"}, nil} },
		"array-with-nil-elem":  func() interface{} { return [2]*lib.Leaf{nil, {S: "x"}} },
		"map-with-nil-value":   func() interface{} { return map[string]*lib.Mid{"a": nil, "b": {Name: "x"}} },
		"slice-of-ptr-ptr":     func() interface{} { return []**lib.Tree{pn, nil} },
		"tree-with-nil-parts": func() interface{} {
			return &lib.Tree{Name: "x", Kids: []*lib.Tree{nil}, ByKey: map[string]*lib.Tree{"k": nil}, PP: new(*lib.Leaf), PArr: [2]*lib.Leaf{nil, nil}}
		},
		"populated-any":         func() interface{} { return c13Populated() },
		"zero-any":              func() interface{} { return &c13Any{} },
		"any-by-value":          func() interface{} { return *c13Populated() },
		"slice-of-any":          func() interface{} { return []*c13Any{c13Populated(), nil, {}} },
		"map-of-any":            func() interface{} { return map[int]*c13Any{1: c13Populated(), 2: nil} },
		"int":                   func() interface{} { return 5 },
		"zero-int":              func() interface{} { return 0 },
		"int-ptr":               func() interface{} { return pi },
		"int-ptr-ptr":           func() interface{} { return &pi },
		"string":                func() interface{} { return "abc" },
		"empty-string":          func() interface{} { return "" },
		"url-string":            func() interface{} { return s },
		"url-string-ptr":        func() interface{} { return &s },
		"url-bad-escape":        func() interface{} { return bad },
		"url-no-query":          func() interface{} { return "http://a.b/c" },
		"url-only-question":     func() interface{} { return "?" },
		"url-weird":             func() interface{} { return "?=&&k&k=1=2&=&%3F%26" },
		"float":                 func() interface{} { return 1.5 },
		"bool":                  func() interface{} { return true },
		"complex":               func() interface{} { return 1 + 2i },
		"func":                  func() interface{} { return func() {} },
		"nil-func":              func() interface{} { var f func(); return f },
		"chan":                  func() interface{} { return make(chan int) },
		"nil-chan":              func() interface{} { var c chan int; return c },
		"unsafe-pointer":        func() interface{} { return unsafe.Pointer(pi) },
		"struct-empty":          func() interface{} { return struct{}{} },
		"time":                  func() interface{} { return time.Now() },
		"time-ptr":              func() interface{} { n := time.Now(); return &n },
		"slice-int":             func() interface{} { return []int{1, 2, 0} },
		"slice-string":          func() interface{} { return []string{"a", "", "a"} },
		"slice-empty":           func() interface{} { return []string{} },
		"slice-bool":            func() interface{} { return []bool{true, false} },
		"slice-float":           func() interface{} { return []float32{1.5, 0} },
		"slice-of-slices":       func() interface{} { return [][]int{{1}, nil} },
		"slice-of-interface":    func() interface{} { return []interface{}{1, "a", nil, nilTree} },
		"slice-of-maps":         func() interface{} { return []map[string]string{m, nil, {}} },
		"slice-of-map-ptrs":     func() interface{} { return []*map[string]string{&m, nil} },
		"array-int":             func() interface{} { return [3]int{1, 2, 3} },
		"array-zero-len":        func() interface{} { return [0]string{} },
		"map-string-string":     func() interface{} { return m },
		"map-string-string-ptr": func() interface{} { return &m },
		"map-string-int":        func() interface{} { return map[string]int{"k": 5, "z": 0} },
		"map-string-iface": func() interface{} {
			return map[string]interface{}{"k": "abc", "z": nil, "n": 5, "p": nilTree, "s": []int{1}}
		},
		"map-int-string":           func() interface{} { return map[int]string{1: "a"} },
		"map-int-struct":           func() interface{} { return map[int]lib.Leaf{1: {S: "abc"}} },
		"map-struct-key":           func() interface{} { return map[structKey]*lib.Leaf{{A: "a"}: {S: "abc"}} },
		"map-iface-key":            func() interface{} { return map[interface{}]string{"k": "abc", 1: "b"} },
		"map-named-string-key":     func() interface{} { type K string; return map[K]string{"k": "abc"} },
		"map-string-slice":         func() interface{} { return map[string][]string{"k": {"a"}} },
		"map-string-struct":        func() interface{} { return map[string]lib.Leaf{"k": {S: "abc"}} },
		"map-string-func":          func() interface{} { return map[string]func(){"k": nil} },
		"iface-holding-nil-ptr":    func() interface{} { var i interface{} = nilTree; return &i },
		"ptr-to-iface-struct":      func() interface{} { var i interface{} = lib.Leaf{S: "abc"}; return &i },
		"leaf":                     func() interface{} { return lib.Leaf{S: "abc", N: 5, Tags: []string{"a", "a"}} },
		"leaf-ptr":                 func() interface{} { return &lib.Leaf{S: "abc", N: 5} },
		"multi":                    func() interface{} { return &lib.Multi{A: "abc", B: 3, C: "x"} },
		"anonymous-struct":         func() interface{} { return struct{ S string }{"abc"} },
		"ptr-anonymous-nested-nil": func() interface{} { return &struct{ P *struct{ Q *int } }{} },
	}
}

// c13Rules: the directed catalogue of hostile rule texts.
func c13Rules() []string {
	out := []string{"", ",", ",,", "|", "=", "=|", "|=", "'", "''", "'''", "','", "(", ")", ")(", "~", "required", "required|", "required||", "required|x", "exist", "exist|m", "either", "either=", "either=1", "botheq", "botheq=|", "botheq=1|m",
		"nosuch", "nosuch=1", " required", "required ", "Required", "re", "re=", "re='", "re=''", "re='''", "re='('", "re='['", "re='a", "re=a'", "re='\\'", "re='a\\'", "re='a'|", "re='a'|'", "re='*'", "re='(?P<n>'", "re=|x", "re|x",
		"in", "in=", "in=(", "in=)", "in=)(", "in=)a(", "in=()", "in=(')", "in=('/)", "in=(a/b", "in=a/b)", "in=((a))", "in=(a)|", "in=|(a)", "include", "include=", "include=)a(", "include=(", "include=()",
		"to", "to=", "to=~", "to=1", "to=1~", "to=~1", "to=1~2~3", "to=a~b", "to=1~b", "to=99999999999999999999~1", "to=-99999999999999999999~1", "to=1~99999999999999999999", "to=1.5~2", "to= 1~2", "to=1~2 ", "to=+1~+2", "to=0x1~0x2", "to=1~2|", "to=|1~2",
		"oto", "oto=", "oto=~", "oto=5", "oto=2~1", "ge", "ge=", "ge=x", "ge=99999999999999999999", "le=", "le=-", "gt=+", "lt=1e3", "eq=", "eq=''", "noeq=|", "eq=1|2|3",
		"datetime=", "datetime='", "datetime=''", "datetime=,", "datetime=','", "datetime='a,b,c,d'", "datetime='a,b,c,d,e,f,g'", "datetime=',,,,'", "datetime='2006'", "datetime='Jan'", "datetime='-07'", "datetime='_2'", "datetime='.000'", "datetime='%'",
		"date=", "date='", "date=2006", "date=Mon", "date='Z07:00'", "date=\x00", "year=x", "year2month=", "year2month='''", "year2month=0",
		"ints=", "ints='", "ints=|", "ints=,", "ints=''", "ints=\x00", "unique=x", "json=1", "prefix", "prefix=", "prefix=|", "suffix=", "file=", "dir=", "file|", "phone=1", "email=@", "ip=::", "float=.", "int=0",
		"required,required,required", "required,,required", ",required", "required,", "a=b=c", "a|b|c", "a='b,c", "a='b',c='d", "'required'", "\"required\"", "required\n", "required\x00", "\xff\xfe", "to=1~2,'", "to='1~2'", "to='1'~'2'",
		// (a long run of required/exist markers on a recursive type makes every marker descend on its own:
		// exponential work by construction, not a hang - the long list uses a leaf rule instead)
		strings.Repeat("required,", 6), strings.Repeat("phone,", 200), strings.Repeat("'", 101), strings.Repeat("(", 50) + strings.Repeat(")", 50), "re='" + strings.Repeat("(", 2000) + "'", "in=(" + strings.Repeat("a/", 500) + ")",
		// well-formed rules (hostile values meet ordinary rules)
		"json", "json|bad json", "phone", "email", "idcard", "ip", "ipv4", "ipv6", "year", "year2month", "date", "datetime", "datetime='/, ,:'", "date='.'", "int", "ints", "ints=:", "float", "unique", "prefix=a", "suffix=a",
		"file", "dir", "in=(a/b)", "include=(a/b)", "re='^a+$'", "to=1~3", "ge=2", "le=2", "oto=1~3", "gt=1", "lt=3", "eq=3", "noeq=3", "required,json,unique,ints,email,datetime", "either=1,botheq=1", "botheq=2,either=2,required",
		"说明:", "explain:", "required|说明: x; y", "to=1~2|explain: ; ", "phone|; ", "中文=中文|中文", "to=１~２", "ge=９"}
	return out
}

var c13Entries = []string{"Struct", "StructRM", "ValidateStructTag", "Nested", "Var", "VarMulti", "Map", "MapFn", "Url", "UrlForFn", "VarForFn", "Helpers", "NilFn", "FSPaths"}

// C13Case: one call.
type C13Case struct {
	Entry string  `json:"entry"`
	Shape string  `json:"shape,omitempty"` // catalogue name, or "" when T/V describe the value
	T     *desc.T `json:"t,omitempty"`
	V     *desc.V `json:"v,omitempty"`
	Rule  string  `json:"rule,omitempty"`
	RuleB []byte  `json:"ruleb,omitempty"` // raw bytes when the rule text is not valid UTF-8
}

func (c *C13Case) rule() string {
	if c.RuleB != nil {
		return string(c.RuleB)
	}
	return c.Rule
}

func mkC13(entry, shape, rule string) *C13Case {
	c := &C13Case{Entry: entry, Shape: shape}
	if strings.ToValidUTF8(rule, "") == rule {
		c.Rule = rule
	} else {
		c.RuleB = []byte(rule)
	}
	return c
}

// c13Hostile: string values that stress escaping, length limits and parsers.
var c13Hostile = []string{
	"a\x00'b\"\n\\\x1a", "\x00", "\x1a'", "'\"\\\r\t\n", strings.Repeat("a", 257), "{" + strings.Repeat("\"", 300), "[" + strings.Repeat("[", 5000), strings.Repeat("é", 200),
	"\xff\xfe", strings.Repeat("9", 400), "1e400", "-0", "0x10", " ", "\t\n", strings.Repeat("1,", 3000), strings.Repeat("a@", 200) + "b.c", strings.Repeat("1:", 40), "１２３", "\u2028\ufeff",
	// nothing but continuation bytes / nothing but lead bytes, longer than any echo limit: no rune boundary to cut at
	strings.Repeat("\x80", 300), strings.Repeat("\xbf", 1030), strings.Repeat("\xe4", 300), "a" + strings.Repeat("\x80\xbf", 200),
}

func c13AllShapes() map[string]func() interface{} {
	m := c13Shapes()
	for i, h := range c13Hostile {
		h := h
		n := fmt.Sprintf("%02d", i)
		m["hostile-string-"+n] = func() interface{} { return h }
		m["hostile-leaf-"+n] = func() interface{} { return &lib.Leaf{Name: h, S: h, G1: h, G2: h, Tags: []string{h, h}} }
		m["hostile-map-"+n] = func() interface{} { return map[string]string{"k": h, "z": h} }
		m["hostile-url-"+n] = func() interface{} { return "http://a.b/c?k=" + url.QueryEscape(h) + "&z=" + h }
		m["hostile-iface-map-"+n] = func() interface{} { return map[string]interface{}{"k": h, "z": []byte(h), "n": []string{h}} }
	}
	// interface-typed members holding uncomparable values of one dynamic type (group rules compare members)
	type twoIfaces struct {
		I  interface{}
		I2 interface{}
		K  interface{}
	}
	m["host-embedded-lowercase-and-byte-arrays"] = func() interface{} {
		return &c13Host{c13emb: c13emb{X: "a", N: 1}, c13embp: &c13embp{Y: "b"}, Name: "n", BA: [4]byte{1, 2, 3, 4}, H: c13hash{9}, HS: []c13hash{{1}, {1}}, BAA: [2][4]byte{{1}, {1}}, RM: json.RawMessage(`{"a":1}`)}
	}
	m["host-zero"] = func() interface{} { return &c13Host{} }
	m["declared-container-types"] = func() interface{} {
		return &c13Decl{Tags: c13Tags{"a", "b", "a"}, Sorted: sort.StringSlice{"1", "2"}, Forest: c13Forest{nil, c13Forest{}}, Obj: c13Obj{"a": nil, "b": c13Obj{}}, Name: "n"}
	}
	m["declared-container-types-zero"] = func() interface{} { return &c13Decl{} }
	// collections of pointers whose type has a String / Error method with a value receiver, holding nil
	m["slice-of-stringer-pointers-with-nil"] = func() interface{} {
		now := time.Unix(1700000000, 0)
		return []*time.Time{nil, &now, nil}
	}
	m["slice-of-url-pointers-with-nil"] = func() interface{} { u, _ := url.Parse("http://a.b/c"); return []*url.URL{nil, u} }
	m["slice-of-enum-pointers-with-nil"] = func() interface{} { e := lib.MyI32(1); return []*lib.MyI32{nil, &e, nil} }
	m["array-of-error-pointers-with-nil"] = func() interface{} { return [2]*c13Err{nil, {}} }
	m["struct-with-stringer-pointer-slices"] = func() interface{} {
		return &struct {
			Tags []*time.Time
			Sl   []*lib.MyI32
			Name string
		}{Tags: []*time.Time{nil}, Sl: []*lib.MyI32{nil, nil}, Name: "n"}
	}
	// maps with a NaN key (an entry that no lookup finds again), walked by the struct validator
	m["nan-key-map-of-structs"] = func() interface{} {
		return map[float64]lib.Leaf{math.NaN(): {Name: ""}, 1: {Name: "n"}}
	}
	m["nan-key-map-of-struct-pointers"] = func() interface{} {
		return map[float64]*lib.Leaf{math.NaN(): {}, math.Inf(1): nil}
	}
	m["struct-with-nan-key-maps"] = func() interface{} {
		return &struct {
			M  map[float64]lib.Leaf
			MI map[[2]float64]*lib.Leaf
			I  map[interface{}]lib.Leaf
		}{M: map[float64]lib.Leaf{math.NaN(): {}}, MI: map[[2]float64]*lib.Leaf{{math.NaN(), 1}: {}}, I: map[interface{}]lib.Leaf{math.NaN(): {}, "k": {}}}
	}
	m["named-string-slice"] = func() interface{} { return c13Tags{"a", "b", "a"} }
	m["sort-string-slice"] = func() interface{} { return sort.StringSlice{"1", "2", "1"} }
	m["self-referential-slice"] = func() interface{} { return c13Forest{nil, c13Forest{c13Forest{}}} }
	m["self-referential-pointer"] = func() interface{} { var p c13SelfPtr; q := c13SelfPtr(&p); return q }
	m["self-referential-pointer-nil"] = func() interface{} { var p c13SelfPtr; return p }
	m["mutually-referential-slices"] = func() interface{} { return c13MutA{nil, c13MutB{c13MutA{}}} }
	m["declared-container-types-2"] = func() interface{} {
		var p c13SelfPtr
		return &c13Decl{SP: c13SelfPtr(&p), Mut: c13MutA{c13MutB{}}, Name: "n"}
	}
	m["self-referential-map"] = func() interface{} { return c13Obj{"a": c13Obj{"b": nil}} }
	m["map-of-named-slices"] = func() interface{} { return map[string]c13Tags{"k": {"a", "a"}, "z": nil} }
	// more than a thousand objects in one call (each carries its own groups and clauses: per-call tables grow past any small bound)
	m["many-leaves"] = func() interface{} {
		out := make([]*lib.Leaf, 1100)
		for i := range out {
			out[i] = &lib.Leaf{Name: "n", G1: "x", G2: "y"}
		}
		return out
	}
	m["many-leaves-by-key"] = func() interface{} {
		out := make(map[int]lib.Leaf, 1030)
		for i := 0; i < 1030; i++ {
			out[i] = lib.Leaf{G1: "x"}
		}
		return out
	}
	m["many-maps"] = func() interface{} {
		out := make([]map[string]string, 1100)
		for i := range out {
			out[i] = map[string]string{"k": "a", "z": ""}
		}
		return out
	}
	m["byte-array"] = func() interface{} { return [4]byte{1, 2, 3, 4} }
	m["named-byte-array"] = func() interface{} { return c13hash{7} }
	m["slice-of-byte-arrays"] = func() interface{} { return [][4]byte{{1}, {1}} }
	m["byte-slice"] = func() interface{} { return []byte("ab\x00") }
	m["map-of-byte-arrays"] = func() interface{} { return map[string]interface{}{"k": [4]byte{1}, "z": c13hash{1}, "n": []byte("x")} }
	m["ifaces-holding-slices"] = func() interface{} { return &twoIfaces{I: []int{1}, I2: []int{1}, K: []int{2}} }
	m["ifaces-holding-maps"] = func() interface{} {
		return &twoIfaces{I: map[string]int{"a": 1}, I2: map[string]int{"a": 1}, K: map[string]int{}}
	}
	m["ifaces-holding-funcs"] = func() interface{} { return &twoIfaces{I: func() {}, I2: func() {}, K: func() {}} }
	m["ifaces-holding-structs-with-slices"] = func() interface{} {
		return &twoIfaces{I: lib.Leaf{Tags: []string{"a"}}, I2: lib.Leaf{Tags: []string{"a"}}, K: lib.Leaf{}}
	}
	m["iface-map-of-slices"] = func() interface{} {
		return map[string]interface{}{"k": []int{1}, "z": []int{1}, "n": []int{1}, "p": []int{2}, "s": []int{1}}
	}
	m["iface-map-of-maps"] = func() interface{} {
		return map[string]interface{}{"k": map[string]interface{}{"a": 1}, "z": map[string]interface{}{"a": 1}, "n": map[string]interface{}{}}
	}
	m["list-of-iface-maps-of-slices"] = func() interface{} {
		return []map[string]interface{}{{"k": []string{"a"}, "z": []string{"a"}}, {"k": []string{}, "z": nil}}
	}
	return m
}

var c13ShapeTab = c13AllShapes()

func (c *C13Case) value() interface{} {
	if c.Shape != "" {
		if f, ok := c13ShapeTab[c.Shape]; ok {
			return f()
		}
		return nil
	}
	if c.T == nil || c.V == nil {
		return nil
	}
	return desc.Build(desc.Type(*c.T), *c.V).Interface()
}

// runC13 performs the call; any panic is the violation.
func runC13(c *C13Case) (panicked interface{}) {
	if f := os.Getenv("VERIF_TRACE"); f != "" { // developer aid for hangs: the case being run
		b, _ := jsonMarshal(c)
		_ = os.WriteFile(f, b, 0o644)
	}
	rule := c.rule()
	src := c.value()
	rmAll := func() valid.RM {
		rm := valid.RM{"k": rule, "z": rule, "n": rule, "p": rule, "s": rule, "K": rule, "A": rule, "": rule, "I2": rule}
		for _, f := range c13Fields {
			rm[f] = rule
		}
		for _, f := range []string{"Name", "Val", "PLeaf", "Left", "Kids", "ByKey", "ByNum", "PArr", "Emb", "Un", "Leaves", "Tags", "G1"} {
			rm[f] = rule
		}
		return rm
	}
	return ev.Guard(func() {
		switch c.Entry {
		case "Struct":
			_ = valid.Struct(src)
		case "StructRM":
			_ = valid.Struct(src, rmAll())
			_ = valid.StructForFn(src, rmAll(), "x")
		case "ValidateStructTag":
			_ = valid.ValidateStruct(src, rule)
			// the rule text as a tag on a synthesised type
			st := desc.T{K: "struct", Fields: []desc.F{{Name: "S", T: desc.Scalar("string"), Tags: map[string]string{"valid": rule}}, {Name: "N", T: desc.Scalar("int"), Tags: map[string]string{"valid": rule}},
				{Name: "L", T: desc.Slice(desc.Scalar("string")), Tags: map[string]string{"valid": rule}}, {Name: "P", T: desc.Ptr(desc.Named("Leaf")), Tags: map[string]string{"valid": rule}}}}
			v := desc.Build(desc.Type(desc.Ptr(st)), desc.V{E: []desc.V{{E: []desc.V{desc.Str("abc"), {I: 5}, {E: []desc.V{desc.Str("a")}}, {E: []desc.V{{}}}}}}})
			_ = valid.ValidateStruct(v.Interface())
		case "Nested":
			m := map[interface{}]valid.RM{&lib.Tree{}: rmAll(), &lib.Leaf{}: rmAll(), &c13Any{}: rmAll(), &lib.Mid{}: rmAll()}
			_ = valid.NestedStructForRule(src, m)
		case "Var":
			_ = valid.Var(src, rule)
			_ = valid.Var("abc", rule)
			_ = valid.Var(5, rule)
			_ = valid.Var(1.5, rule)
			_ = valid.Var([]string{"a", "b"}, rule)
			_ = valid.Var([2]int{1, 2}, rule)
		case "VarMulti":
			_ = valid.Var(src, strings.Split(rule, ",")...)
			_ = valid.Var(src)
		case "Map":
			_ = valid.Map(src, rmAll())
			_ = valid.Map(src, nil)
			_ = valid.Map(map[string]string{"k": "abc", "z": ""}, rmAll())
			_ = valid.Map(map[string]int{"k": 5}, rmAll())
			_ = valid.Map([]map[string]interface{}{{"k": "abc", "n": 5, "z": nil}}, rmAll())
		case "MapFn":
			_ = valid.MapFn(src, rmAll(), valid.Name2FnMap{"nosuch": customFn("call", "nosuch")})
		case "Url":
			_ = valid.Url(src, rmAll())
			_ = valid.Url("http://a.b/c?k=abc&n=5&z=", rmAll())
			_ = valid.Url(rule, rmAll())
		case "UrlForFn":
			_ = valid.UrlForFn(src, rule, customFn("call", "x"))
		case "VarForFn":
			_ = valid.VarForFn(src, customFn("call", "x"))
		case "NilFn":
			// a rule name bound to a nil function (a way to switch a rule off): never called
			nilFns := valid.Name2FnMap{"phone": nil, "nosuch": nil, "to": nil, "required": nil, "json": nil}
			_ = valid.StructForFns(src, rmAll(), nilFns)
			_ = valid.MapFn(src, rmAll(), nilFns)
			_ = valid.MapFn(map[string]string{"k": "abc", "z": ""}, rmAll(), nilFns)
			_ = valid.VarForFn(src, nil)
			_ = valid.UrlForFn(src, rule, nil)
			_ = valid.UrlForFn("http://a.b/c?k=abc", "k", nil)
			_ = valid.ValidStructForMyValidFn(src, "phone", nil)
			_ = valid.NewVStruct().SetRule(rmAll()).SetValidFn("email", nil).SetValidFn("x", nil).Valid(src)
			_ = valid.NewVVar().SetRules(rule, "email", "x").SetValidFn("email", nil).SetValidFn("x", nil).Valid("abc")
			_ = valid.NewVUrl().SetRule(rmAll()).SetValidFn("email", nil).Valid("http://a.b/c?k=abc")
		case "FSPaths":
			// strings that name odd things in the file system (links to files / directories, a dangling link, a link loop)
			for _, p := range []string{fsPaths.file, fsPaths.dir, fsPaths.missing, fsPaths.linkFile, fsPaths.linkDir, fsPaths.dangling, fsPaths.loop, "/dev/null", "/proc/self/fd/0", "", "."} {
				_ = valid.Var(p, rule)
				_ = valid.Var(p, "file", "dir", rule)
				_ = valid.Map(map[string]string{"k": p, "z": p}, rmAll())
				_ = valid.Struct(&lib.Leaf{Name: p, S: p}, rmAll())
				_ = valid.Struct(&lib.Leaf{Name: p, S: p}, valid.RM{"Name": "file|not a file", "S": "dir"})
			}
		case "Helpers":
			_ = valid.ValidNamesSplit(rule)
			_, _, _ = valid.ParseValidNameKV(rule)
			_ = valid.GenValidKV(rule, rule, rule)
			_ = valid.GenValidKV("re", rule)
			_ = valid.GenValidKV("in", rule, rule)
			_ = valid.GetOnlyExplainErr(rule)
			_ = valid.GetTimeFmt(int8(len(rule)), strings.Split(rule, ",")...)
			_ = valid.NewRule().Set(rule, rule).Get(rule)
			_ = valid.GetDumpStructStr(src)
		}
	})
}

// c13Watchdog: how long a catalogue call may run.  Catalogue calls take microseconds (the crowded
// shapes a few milliseconds); the bound is seven orders of magnitude above that, so that a loaded
// machine cannot reach it.
const c13Watchdog = 60 * time.Second

// runC13Watched runs the case in a goroutine of its own and reports whether it came back.
func runC13Watched(c *C13Case) (panicked interface{}, hung bool) {
	done := make(chan interface{}, 1)
	go func() { done <- runC13(c) }()
	tm := time.NewTimer(c13Watchdog)
	defer tm.Stop()
	select {
	case p := <-done:
		return p, false
	case <-tm.C:
		return nil, true
	}
}

func TestC13(t *testing.T) {
	cleanup := setupFS()
	defer cleanup()
	t.Run("catalogue", func(t *testing.T) {
		shapes := make([]string, 0, len(c13ShapeTab))
		for n := range c13ShapeTab {
			shapes = append(shapes, n)
		}
		sortStrings(shapes)
		rules := c13Rules()
		shard, nshard := ev.Shard()
		idx := 0
		var count int64
		for _, e := range c13Entries {
			for _, sh := range shapes {
				for _, r := range rules {
					if e == "FSPaths" && sh != "string" {
						continue // this entry brings its own values: one pass over the rule texts is enough
					}
					if strings.HasPrefix(sh, "many-") && !strings.Contains(r, "either") && !strings.Contains(r, "botheq") && len(r)%5 != 0 {
						continue // the crowded shapes meet every group rule and a fifth of the other texts
					}
					idx++
					if idx%nshard != shard {
						continue
					}
					c := mkC13(e, sh, r)
					count++
					p, hung := runC13Watched(c)
					if hung {
						// "returns normally" - a call that is still running after c13Watchdog on inputs this
						// small spins or is blocked for good (the goroutine cannot be stopped: the test ends here)
						ev.Fail(t, "C13", "catalogue", c, "the call did not return within %v (every other call of the catalogue takes microseconds)", c13Watchdog)
						t.FailNow()
					}
					if p != nil {
						ev.Fail(t, "C13", "catalogue", c, "panic: %v", p)
					}
				}
			}
		}
		ev.Exhaustive(fmt.Sprintf("directed catalogue: %d entry points x %d value shapes x %d hostile rule texts", len(c13Entries), len(shapes), len(rules)), int64(idx), fmt.Sprintf("this shard ran %d", count))
		ev.ExtraAdd("enumerated_cases", count)
		ev.ExtraAdd("enumerated_nontrivial_distinct_by_construction", count)
	})
	t.Run("random", func(t *testing.T) {
		shapes := make([]string, 0, len(c13ShapeTab))
		for n := range c13ShapeTab {
			shapes = append(shapes, n)
		}
		sortStrings(shapes)
		rules := c13Rules()
		rapid.Check(t, func(t *rapid.T) {
			c := &C13Case{Entry: rapid.SampledFrom(c13Entries).Draw(t, "entry")}
			// rule text: mutation of a catalogue text, concatenation, or arbitrary bytes
			var rule string
			switch rapid.IntRange(0, 3).Draw(t, "ruleMode") {
			case 0:
				rule = string(rapid.SliceOfN(rapid.Byte(), 0, 24).Draw(t, "bytes"))
			case 1:
				rule = rapid.SampledFrom(rules).Draw(t, "r1") + rapid.SampledFrom([]string{",", "|", "=", "", "'"}).Draw(t, "glue") + rapid.SampledFrom(rules).Draw(t, "r2")
			default:
				rule = rapid.SampledFrom(rules).Draw(t, "base")
				for i := rapid.IntRange(1, 3).Draw(t, "edits"); i > 0; i-- {
					rule = editOnce(t, rule)
				}
			}
			if strings.ToValidUTF8(rule, "") == rule {
				c.Rule = rule
			} else {
				c.RuleB = []byte(rule)
			}
			// value: catalogue shape or a synthesised value of arbitrary type
			if rapid.Bool().Draw(t, "catalogueShape") {
				c.Shape = rapid.SampledFrom(shapes).Draw(t, "shape")
			} else {
				ty, v := genAnyType(t, 0)
				c.T, c.V = &ty, &v
			}
			nt := c.Shape != "" || c.T != nil
			b, _ := jsonMarshal(c)
			ev.Class("entry=" + c.Entry)
			ev.Case(string(b), nt, func() interface{} { return c })
			if p := runC13(c); p != nil {
				ev.Fail(t, "C13", "random", c, "panic: %v", p)
			}
		})
	})
}

// genAnyType draws an arbitrary (possibly odd) type with a value for it.
func genAnyType(t *rapid.T, depth int) (desc.T, desc.V) {
	kinds := []string{"string", "int", "uint8", "float32", "bool", "iface", "func", "chan", "time", "ptr", "slice", "array", "map", "struct", "named"}
	if depth >= 3 {
		kinds = kinds[:9]
	}
	switch k := rapid.SampledFrom(kinds).Draw(t, "anyKind"); k {
	case "ptr":
		et, ev1 := genAnyType(t, depth+1)
		if rapid.IntRange(0, 2).Draw(t, "nilPtr") == 0 {
			return desc.Ptr(et), desc.V{Nil: true}
		}
		return desc.Ptr(et), desc.V{E: []desc.V{ev1}}
	case "slice", "array":
		et, _ := genAnyType(t, depth+1)
		n := rapid.IntRange(0, 3).Draw(t, "n")
		v := desc.V{Nil: k == "slice" && rapid.IntRange(0, 3).Draw(t, "nilSlice") == 0}
		for i := 0; i < n && !v.Nil; i++ {
			v.E = append(v.E, genValueDesc(t, et, depth+1))
		}
		if k == "array" {
			return desc.Array(n, et), v
		}
		return desc.Slice(et), v
	case "map":
		et, _ := genAnyType(t, depth+1)
		kt := desc.Scalar(rapid.SampledFrom([]string{"string", "string", "int", "bool", "float64", "iface"}).Draw(t, "keyKind"))
		n := rapid.IntRange(0, 3).Draw(t, "n")
		v := desc.V{Nil: rapid.IntRange(0, 3).Draw(t, "nilMap") == 0}
		for i := 0; i < n && !v.Nil; i++ {
			switch kt.K {
			case "string":
				v.K = append(v.K, desc.Str([]string{"k", "z", "n"}[i]))
			case "int":
				v.K = append(v.K, desc.V{I: int64(i)})
			case "bool":
				v.K = append(v.K, desc.V{B: i%2 == 0})
			case "float64":
				v.K = append(v.K, desc.V{F: float64(i) + 0.5})
			default:
				dt := desc.Scalar("string")
				v.K = append(v.K, desc.V{DT: &dt, E: []desc.V{desc.Str([]string{"k", "z", "n"}[i])}})
			}
			v.E = append(v.E, genValueDesc(t, et, depth+1))
		}
		return desc.Map(kt, et), v
	case "struct":
		n := rapid.IntRange(0, 4).Draw(t, "nFields")
		ty := desc.T{K: "struct"}
		v := desc.V{}
		for i := 0; i < n; i++ {
			ft, fv := genAnyType(t, depth+1)
			name := []string{"K", "A", "S", "N"}[i]
			if rapid.IntRange(0, 5).Draw(t, "unexp") == 0 {
				name = strings.ToLower(name) + "u"
			}
			ty.Fields = append(ty.Fields, desc.F{Name: name, T: ft, Tags: map[string]string{"valid": rapid.SampledFrom([]string{"required", "exist", "required,exist", "to=1~2", "either=1", "botheq=2", "", "unique", "ints", "in=(a)"}).Draw(t, "tag")}})
			v.E = append(v.E, fv)
		}
		return ty, v
	case "named":
		name := rapid.SampledFrom([]string{"Tree", "Mid", "Leaf", "Top"}).Draw(t, "named")
		return desc.Named(name), genValueRT(t, lib.Types[name], depth, 3)
	case "iface":
		if rapid.IntRange(0, 2).Draw(t, "nilIface") == 0 || depth >= 3 {
			return desc.Scalar("iface"), desc.V{Nil: true}
		}
		dt, dv := genAnyType(t, depth+1)
		return desc.Scalar("iface"), desc.V{DT: &dt, E: []desc.V{dv}}
	default:
		ty := desc.Scalar(k)
		return ty, genValueDesc(t, ty, depth)
	}
}

// genValueDesc draws a value for an arbitrary descriptor.
func genValueDesc(t *rapid.T, ty desc.T, depth int) desc.V {
	switch ty.K {
	case "string":
		if rapid.IntRange(0, 3).Draw(t, "hostileStr") == 0 {
			return desc.Str(rapid.SampledFrom(c13Hostile).Draw(t, "hs"))
		}
		return desc.Str(rapid.SampledFrom([]string{"", "abc", "a,a", "1"}).Draw(t, "s"))
	case "bool":
		return desc.V{B: rapid.Bool().Draw(t, "b")}
	case "int":
		return desc.V{I: int64(rapid.IntRange(-1, 3).Draw(t, "i"))}
	case "uint8":
		return desc.V{U: uint64(rapid.IntRange(0, 3).Draw(t, "u"))}
	case "float32":
		return desc.V{F: float64(rapid.IntRange(0, 2).Draw(t, "f"))}
	case "time":
		return desc.V{I: int64(rapid.IntRange(0, 1).Draw(t, "tm")) * 1700000000}
	case "func", "chan":
		return desc.V{Nil: rapid.Bool().Draw(t, "nilFC")}
	case "iface":
		if rapid.Bool().Draw(t, "nilI") {
			return desc.V{Nil: true}
		}
		dt := desc.Scalar(rapid.SampledFrom([]string{"string", "int", "bool"}).Draw(t, "dyn"))
		if rapid.IntRange(0, 2).Draw(t, "dynSlice") == 0 { // an uncomparable dynamic value
			dt = desc.Slice(dt)
		}
		return desc.V{DT: &dt, E: []desc.V{genValueDesc(t, dt, depth+1)}}
	case "ptr":
		if rapid.IntRange(0, 2).Draw(t, "nilP") == 0 {
			return desc.V{Nil: true}
		}
		return desc.V{E: []desc.V{genValueDesc(t, *ty.Elem, depth+1)}}
	case "slice":
		n := rapid.IntRange(-1, 2).Draw(t, "ln")
		v := desc.V{Nil: n < 0}
		for i := 0; i < n; i++ {
			v.E = append(v.E, genValueDesc(t, *ty.Elem, depth+1))
		}
		return v
	case "array":
		v := desc.V{}
		for i := 0; i < ty.Len; i++ {
			v.E = append(v.E, genValueDesc(t, *ty.Elem, depth+1))
		}
		return v
	case "map":
		return desc.V{Nil: rapid.Bool().Draw(t, "nilM")}
	case "struct":
		v := desc.V{}
		for _, f := range ty.Fields {
			v.E = append(v.E, genValueDesc(t, f.T, depth+1))
		}
		return v
	case "named":
		return genValueRT(t, lib.Types[ty.Name], depth, 2)
	}
	return desc.V{}
}

func TestC13Replay(t *testing.T) {
	cleanup := setupFS()
	defer cleanup()
	for _, f := range ev.ReplayFiles() {
		rp, err := ev.LoadReplay(f)
		if err != nil {
			t.Fatalf("replay %s: %v", f, err)
		}
		ev.Class("replayed")
		var c C13Case
		if err := jsonUnmarshal(rp.Case, &c); err != nil {
			t.Fatalf("replay %s: %v", f, err)
		}
		p, hung := runC13Watched(&c)
		if hung {
			ev.Fail(t, "C13", "replay", &c, "the call did not return within %v (replay %s)", c13Watchdog, f)
			t.FailNow()
		}
		if p != nil {
			ev.Fail(t, "C13", "replay", &c, "panic: %v (replay %s)", p, f)
		}
	}
}

// FuzzC13: bytes -> (entry point, value shape, rule text).
func FuzzC13(f *testing.F) {
	shapes := make([]string, 0, len(c13ShapeTab))
	for n := range c13ShapeTab {
		shapes = append(shapes, n)
	}
	sortStrings(shapes)
	for i, r := range c13Rules() {
		f.Add(byte(i), byte(i*7), []byte(r))
	}
	f.Fuzz(func(t *testing.T, e, s byte, rule []byte) {
		c := mkC13(c13Entries[int(e)%len(c13Entries)], shapes[int(s)%len(shapes)], string(rule))
		if p := runC13(c); p != nil {
			t.Fatalf("panic: %v in %+v", p, c)
		}
	})
}

var _ = reflect.TypeOf
