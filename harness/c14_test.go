package harness

import (
	"fmt"
	"reflect"
	"sort"
	"strings"
	"testing"

	"gitee.com/xuesongtao/protoc-go-valid/valid"
	"pgregory.net/rapid"

	"verifharness/ev"
	"verifharness/model"
)

// ---- C14: rule text round-trips through the builder, the splitter and the parser ----

// RuleSpec is one rule as handed to the documented helper GenValidKV.
type RuleSpec struct {
	Key    string `json:"key"`
	Val    string `json:"val,omitempty"`
	HasVal bool   `json:"hasval,omitempty"`
	Msg    string `json:"msg,omitempty"`
	HasMsg bool   `json:"hasmsg,omitempty"`
}

// RTCase: a rule list for one or several fields, set with one or several RM.Set calls.
type RTCase struct {
	Rules  []RuleSpec `json:"rules"`
	Fields string     `json:"fields"` // "F" or "F,G"
	Chunks []int      `json:"chunks"` // how the rules are distributed over successive Set calls
}

var c14Keys = []string{"required", "exist", "either", "botheq", "to", "ge", "le", "oto", "gt", "lt", "eq", "noeq", "in", "include", "phone", "email", "idcard", "year", "year2month", "date", "datetime",
	"int", "ints", "float", "re", "ip", "ipv4", "ipv6", "unique", "json", "prefix", "suffix", "file", "dir", "mycheck", "x", "自定义"}

var c14ValRunes = []rune("ab1XYZ09测试=~/() -_.:谬丯%\\｜") // 谬 U+8C2C, 丯 U+4E2F: code points whose low byte is ',' / '/'
var c14MsgRunes = []rune("ab1XYZ09测试=~/() -_.:|!谬丯%｜")

func genText(t *rapid.T, pool []rune, lo, hi int, label string) string {
	n := rapid.IntRange(lo, hi).Draw(t, label+"Len")
	var b strings.Builder
	for i := 0; i < n; i++ {
		r := rapid.SampledFrom(pool).Draw(t, label)
		if r == '测' && rapid.IntRange(0, 3).Draw(t, label+"AnyCJK") == 0 {
			// any character of the range the documentation calls Chinese (U+4E00..U+9FA5), and its neighbours
			r = rune(rapid.IntRange(0x4dfe, 0x9fa7).Draw(t, label+"CJK"))
		}
		b.WriteRune(r)
	}
	return b.String()
}

// genQuotable draws text in which commas appear only inside single-quoted segments.
func genQuotable(t *rapid.T, pool []rune, label string) (s string, quotedComma bool) {
	var b strings.Builder
	for i := rapid.IntRange(1, 3).Draw(t, label+"Segs"); i > 0; i-- {
		if rapid.IntRange(0, 3).Draw(t, label+"Quoted") == 0 {
			inner := genText(t, pool, 0, 4, label+"Q")
			if rapid.Bool().Draw(t, label+"Comma") {
				inner += "," + genText(t, pool, 0, 3, label+"Q2")
				quotedComma = true
			}
			b.WriteString("'" + inner + "'")
		} else {
			b.WriteString(genText(t, pool, 1, 5, label))
		}
	}
	return b.String(), quotedComma
}

func genRTCase(t *rapid.T) (*RTCase, bool) {
	c := &RTCase{}
	n := rapid.IntRange(1, 6).Draw(t, "nRules")
	nt := false
	for i := 0; i < n; i++ {
		r := RuleSpec{Key: rapid.SampledFrom(c14Keys).Draw(t, "key")}
		if rapid.IntRange(0, 3).Draw(t, "hasVal") > 0 {
			v, qc := genQuotable(t, c14ValRunes, "val")
			r.Val, r.HasVal = v, true
			nt = nt || (qc && n >= 2)
		}
		if r.HasVal && !strings.Contains(r.Val, "'") && rapid.IntRange(0, 14).Draw(t, "keyInValue") == 8 {
			// a value that begins with the rule's own name and an equals sign (prefix=prefix=, in=in=(a/b)): text like any other
			r.Val = r.Key + "=" + r.Val
		}
		switch rapid.IntRange(0, 9).Draw(t, "msgKind") {
		case 9:
			// a long ASCII text followed by CJK: the label follows the whole message, however long
			n := rapid.SampledFrom([]int{60, 250, 254, 255, 256, 257, 1000}).Draw(t, "asciiPrefix")
			r.Msg, r.HasMsg = strings.Repeat("developer text ", n/15+1)[:n]+rapid.SampledFrom([]string{"测", "请输入", "长"}).Draw(t, "cjkTail"), true
		case 7:
			// a message that itself begins with (or contains) an explanation label: it is just text
			r.Msg, r.HasMsg = rapid.SampledFrom([]string{"explain:", "说明:", "explain: ", "see explain:", "说明:必填"}).Draw(t, "labelText")+genText(t, c14MsgRunes, 0, 4, "m"), true
		case 8:
			// a quoted segment whose last character is a backslash (a quote is closed by the next quote, always)
			r.Msg, r.HasMsg = "'"+genText(t, c14MsgRunes, 0, 4, "m")+"\\'", true
			nt = nt || n >= 2
		case 0:
		case 1:
			r.Msg, r.HasMsg = string(rapid.SampledFrom([]rune("x7=!|测")).Draw(t, "oneChar")), true
			nt = nt || (n >= 2 && len(r.Msg) == 1)
		case 2:
			r.Msg, r.HasMsg = genText(t, c14MsgRunes, 1, 3, "m")+"="+genText(t, c14MsgRunes, 0, 3, "m2"), true
			nt = nt || n >= 2
		case 3:
			m, qc := genQuotable(t, c14MsgRunes, "qm")
			r.Msg, r.HasMsg = m, true
			nt = nt || (qc && n >= 2)
		case 4:
			r.Msg, r.HasMsg = "", true // explicit empty message
		default:
			r.Msg, r.HasMsg = genText(t, c14MsgRunes, 2, 10, "m"), true
		}
		if r.HasMsg && r.Msg != "" && !strings.Contains(r.Msg, "'") && rapid.IntRange(0, 9).Draw(t, "clauseEnd") == 7 {
			// a message that ends like a clause of an error text ends (people close their sentences): it is text to the last byte
			r.Msg += rapid.SampledFrom([]string{"; ", ";", "; ; ", "。", "; x"}).Draw(t, "clauseEndText")
		}
		if rapid.IntRange(0, 9).Draw(t, "ruleNameInText") == 4 {
			// the NAME of another rule inside a value or a message is just text
			word := rapid.SampledFrom([]string{"required", "exist", "either", "in", "re"}).Draw(t, "word")
			if r.HasMsg && r.Msg != "" && !strings.Contains(r.Msg, "'") {
				r.Msg = "not " + word + " on drafts " + r.Msg
			} else if r.Key == "in" {
				r.Val, r.HasVal = word+"/optional", true
			}
		}
		c.Rules = append(c.Rules, r)
	}
	if n < 6 && rapid.IntRange(0, 4).Draw(t, "bareAfter") == 2 {
		// a bare rule added by a LATER Set call for the same field
		c.Rules = append(c.Rules, RuleSpec{Key: rapid.SampledFrom([]string{"required", "required", "exist", "phone"}).Draw(t, "bareKey")})
		n++
	}
	c.Fields = rapid.SampledFrom([]string{"F", "F", "F,G", "G,F,H"}).Draw(t, "fields")
	left := n
	for left > 0 {
		k := rapid.IntRange(1, left).Draw(t, "chunk")
		c.Chunks = append(c.Chunks, k)
		left -= k
	}
	return c, nt
}

// c14Excluded: shapes the documented grammar cannot express.
func (r RuleSpec) excluded() string {
	if strings.Contains(r.Val, "|") {
		return "pipe-in-value"
	}
	if strings.Count(r.Val, "'")%2 != 0 || strings.Count(r.Msg, "'")%2 != 0 {
		return "unbalanced-quotes"
	}
	if (r.Key == "in" || r.Key == "include") && strings.HasPrefix(r.Val, "=") {
		return "in-value-with-leading-equals"
	}
	if r.Key == "re" && r.HasVal && r.Val != "" {
		v := r.Val
		fully := len(v) >= 2 && v[0] == '\'' && v[len(v)-1] == '\'' && strings.Count(v, "'") == 2
		if !fully && strings.Contains(v, "'") {
			return "partially-quoted-re-value"
		}
	}
	if strings.ContainsAny(r.Key, "=|,'") {
		return "bad-key"
	}
	if r.HasVal && r.Val == "" {
		return ""
	}
	return ""
}

// expectedValue: the value as written by the documented helper.
func (r RuleSpec) expectedValue() string {
	if !r.HasVal || r.Val == "" {
		return ""
	}
	v := strings.TrimPrefix(r.Val, "=")
	if strings.HasPrefix(r.Val, "=") {
		// the helper's leniency: a leading "=" of the value is the separator itself
		switch r.Key {
		case "re":
		default:
			return v
		}
	}
	switch r.Key {
	case "in", "include":
		return "(" + r.Val + ")"
	case "re":
		if len(r.Val) > 1 && r.Val[0] == '\'' {
			return r.Val
		}
		return "'" + r.Val + "'"
	}
	return r.Val
}

func checkRT(c *RTCase) (msg, skipped string) {
	for _, r := range c.Rules {
		if x := r.excluded(); x != "" {
			return "", x
		}
		if strings.HasPrefix(r.Val, "=") && (r.Key == "re") {
			return "", "re-value-with-leading-equals"
		}
	}
	var pieces []string
	var err string
	if p := ev.Guard(func() {
		rm := valid.NewRule()
		i := 0
		for _, k := range c.Chunks {
			var items []string
			for _, r := range c.Rules[i : i+k] {
				var args []string
				if r.HasVal || r.HasMsg {
					args = append(args, r.Val)
				}
				if r.HasMsg {
					args = append(args, r.Msg)
				}
				// the helper gets the caller's slice (spread) and is called twice with it: it must leave the
				// slice alone and write the same text both times
				before := append([]string(nil), args...)
				item := valid.GenValidKV(r.Key, args...)
				again := valid.GenValidKV(r.Key, args...)
				if item != again || !reflect.DeepEqual(before, args) {
					err = fmt.Sprintf("GenValidKV(%q, %q...) wrote %q, then %q for the same slice (slice afterwards: %q)", r.Key, before, item, again, args)
				}
				items = append(items, item)
			}
			rm.Set(c.Fields, items...)
			i += k
		}
		var first string
		for fi, f := range strings.Split(c.Fields, ",") {
			got := rm.Get(f)
			if fi == 0 {
				first = got
			} else if got != first {
				err = fmt.Sprintf("field %s got rule text %q, field %s got %q", strings.Split(c.Fields, ",")[0], first, f, got)
			}
		}
		pieces = valid.ValidNamesSplit(first)
		// the pieces stay what they are while the splitter is used again (on quoted texts too)
		kept := make([]string, len(pieces))
		for i, p := range pieces {
			kept[i] = string([]byte(p))
		}
		_ = valid.ValidNamesSplit("in=('p,q'/r),required,ge=1")
		_ = valid.ValidNamesSplit(first + ",re='^x,y$'")
		_ = valid.ValidNamesSplit("required")
		for i := range pieces {
			if pieces[i] != kept[i] {
				err = fmt.Sprintf("piece %d of ValidNamesSplit(%q) was %q and reads %q after later calls of the splitter", i, first, kept[i], pieces[i])
			}
		}
		// the result belongs to the caller: editing it does not change what a later split of the same text returns
		edited := valid.ValidNamesSplit(first)
		for i := range edited {
			edited[i] = "edited by the caller"
		}
		sort.Strings(edited)
		if second := valid.ValidNamesSplit(first); !reflect.DeepEqual(second, kept) && err == "" {
			err = fmt.Sprintf("ValidNamesSplit(%q) returned %q, and after the caller edited an earlier result of the same text %q", first, kept, second)
		}
	}); p != nil {
		return fmt.Sprintf("panic: %v", p), ""
	}
	if err != "" {
		return err, ""
	}
	if len(pieces) != len(c.Rules) {
		return fmt.Sprintf("%d rules were written, the splitter returned %d pieces: %q", len(c.Rules), len(pieces), pieces), ""
	}
	for i, r := range c.Rules {
		var k, v, m string
		if p := ev.Guard(func() { k, v, m = valid.ParseValidNameKV(pieces[i]) }); p != nil {
			return fmt.Sprintf("ParseValidNameKV(%q) panicked: %v", pieces[i], p), ""
		}
		wantMsg := ""
		if r.HasMsg && r.Msg != "" {
			wantMsg = model.MsgLabel(r.Msg) + " " + r.Msg
		}
		if k != r.Key || v != r.expectedValue() || m != wantMsg {
			return fmt.Sprintf("rule %d %+v was written as %q and parsed back as key=%q value=%q msg=%q, want key=%q value=%q msg=%q", i, r, pieces[i], k, v, m, r.Key, r.expectedValue(), wantMsg), ""
		}
	}
	return "", ""
}

// SplitCase: an arbitrary string for the splitter laws.
type SplitCase struct {
	S   string `json:"s"`
	SB  []byte `json:"sb,omitempty"`
	Sep byte   `json:"sep"`
}

func (c SplitCase) str() string {
	if c.SB != nil {
		return string(c.SB)
	}
	return c.S
}

// checkSplitLaws: (1) no-loss: pieces joined by the separator give back s, up
// to one trailing separator; (2) fast / slow path agreement for quote-free s.
func checkSplitLaws(c SplitCase) string {
	s := c.str()
	sep := c.Sep
	if sep == '\'' || sep >= 0x80 {
		// a quote as separator is degenerate; a non-ASCII byte is not a separator of UTF-8 text
		// (the fast path converts it to a two-byte rune, the slow path compares the single byte)
		return ""
	}
	var pieces []string
	if p := ev.Guard(func() {
		if sep == ',' {
			pieces = valid.ValidNamesSplit(s)
		} else {
			pieces = valid.ValidNamesSplit(s, sep)
		}
	}); p != nil {
		return fmt.Sprintf("ValidNamesSplit(%q, %q) panicked: %v", s, sep, p)
	}
	joined := strings.Join(pieces, string(sep))
	if joined != s && joined+string(sep) != s {
		return fmt.Sprintf("ValidNamesSplit(%q, %q) = %q: joined pieces %q lose or invent characters", s, sep, pieces, joined)
	}
	if s == "" && pieces != nil {
		return fmt.Sprintf("ValidNamesSplit(\"\") = %q", pieces)
	}
	if s != "" && !strings.Contains(s, "'") {
		var slow []string
		if p := ev.Guard(func() { slow = valid.ValidNamesSplit(s+string(sep)+"'q'", sep) }); p != nil {
			return fmt.Sprintf("slow path panicked: %v", p)
		}
		want := append(append([]string{}, pieces...), "'q'")
		if strings.Join(slow, "\x00") != strings.Join(want, "\x00") || len(slow) != len(want) {
			return fmt.Sprintf("fast and slow path disagree on %q: fast %q, slow (with a quoted tail) %q", s, pieces, slow)
		}
	}
	return ""
}

func mkSplitCase(s string, sep byte) SplitCase {
	if strings.ToValidUTF8(s, "") == s {
		return SplitCase{S: s, Sep: sep}
	}
	return SplitCase{SB: []byte(s), Sep: sep}
}

func TestC14(t *testing.T) {
	t.Run("roundtrip", func(t *testing.T) {
		rapid.Check(t, func(t *rapid.T) {
			c, nt := genRTCase(t)
			msg, skipped := checkRT(c)
			if skipped != "" {
				ev.Excluded(skipped)
				return
			}
			ev.Class(fmt.Sprintf("rules=%d", len(c.Rules)))
			ev.Class(fmt.Sprintf("set-calls=%d", len(c.Chunks)))
			b, _ := jsonMarshal(c)
			ev.Case(string(b), nt, func() interface{} { return c })
			if msg != "" {
				ev.Fail(t, "C14", "roundtrip", c, "%s", msg)
			}
		})
	})
	t.Run("split", func(t *testing.T) {
		alphabet := []rune("ab,'|=/()~ 测,',,'谬丯甬\\")
		rapid.Check(t, func(t *rapid.T) {
			var s string
			switch rapid.IntRange(0, 4).Draw(t, "structured") {
			case 0, 1:
				s = genText(t, alphabet, 0, 14, "s")
			case 2:
				// rule text is a string of BYTES: bytes that are no valid UTF-8 (a pattern in another encoding) pass through as they are
				s = genText(t, alphabet, 0, 6, "s1") + rapid.SampledFrom([]string{"\xff", "\xfe\xff", "\x80", "\xc0\xaf", "\xed\xa0\x80"}).Draw(t, "rawBytes") + genText(t, alphabet, 0, 6, "s2")
			default:
				s = rapid.String().Draw(t, "s")
			}
			sep := rapid.SampledFrom([]byte{',', ',', '/', '-', ' ', 'a', '|'}).Draw(t, "sep")
			c := mkSplitCase(s, sep)
			ev.Class(fmt.Sprintf("quotes=%s", bucket(strings.Count(s, "'"))))
			ev.Case("split:"+string(sep)+s, strings.Contains(s, "'") && strings.Contains(s, string(sep)), func() interface{} { return c })
			if msg := checkSplitLaws(c); msg != "" {
				ev.Fail(t, "C14", "split", c, "%s", msg)
			}
		})
	})
}

func TestC14Replay(t *testing.T) {
	for _, f := range ev.ReplayFiles() {
		rp, err := ev.LoadReplay(f)
		if err != nil {
			t.Fatalf("replay %s: %v", f, err)
		}
		ev.Class("replayed")
		if rp.Sub == "split" {
			var c SplitCase
			if err := jsonUnmarshal(rp.Case, &c); err != nil {
				t.Fatalf("replay %s: %v", f, err)
			}
			if msg := checkSplitLaws(c); msg != "" {
				ev.Fail(t, "C14", "split", c, "%s (replay %s)", msg, f)
			}
			continue
		}
		var c RTCase
		if err := jsonUnmarshal(rp.Case, &c); err != nil {
			t.Fatalf("replay %s: %v", f, err)
		}
		if msg, _ := checkRT(&c); msg != "" {
			ev.Fail(t, "C14", "roundtrip", &c, "%s (replay %s)", msg, f)
		}
	}
}

// FuzzC14: coverage-guided search on the splitter laws (thorough tier).
func FuzzC14(f *testing.F) {
	for _, s := range []string{"", "a,b", "required|必填,phone|'手机号码必填,同时正确',re='\\d+{1,2}'", "'a',", "',", "a,'b", "'a','b',,", ",,'", "in=('a/b'/c)"} {
		f.Add(s, byte(','))
		f.Add(s, byte('/'))
	}
	f.Fuzz(func(t *testing.T, s string, sep byte) {
		if msg := checkSplitLaws(mkSplitCase(s, sep)); msg != "" {
			t.Fatal(msg)
		}
	})
}
