package harness

import (
	"fmt"
	"strings"
	"testing"
	"unicode/utf8"

	"gitee.com/xuesongtao/protoc-go-valid/valid"
	"pgregory.net/rapid"

	"verifharness/desc"
	"verifharness/ev"
	"verifharness/model"
)

// ---- C15: custom messages replace the default text verbatim and can be extracted alone ----

// violating: for every message-capable rule a value that violates it.
type violating struct {
	item string
	t    desc.T
	v    desc.V
	re   string
}

func violatingTable() []violating {
	s := func(item, val string) violating {
		return violating{item: item, t: desc.Scalar("string"), v: desc.Str(val)}
	}
	out := []violating{
		s("to=1~2", "abc"), s("ge=5", "ab"), s("le=1", "abc"), s("oto=1~3", "abc"), s("gt=3", "abc"), s("lt=3", "abc"), s("eq=2", "abc"), s("noeq=3", "abc"),
		s("in=(a/b)", "c"), s("include=(zz)", "abc"), s("phone", "123"), s("email", "x"), s("idcard", "12"), s("ip", "1.2.3"), s("ipv4", "::1"), s("ipv6", "1.2.3.4"),
		s("year", "96"), s("year2month", "1996"), s("year2month=/", "1996-01"), s("date", "1996-13-01"), s("date='.'", "1996-01-01"), s("datetime", "1996-01-01"), s("datetime='/, ,:'", "1996-01-01 00:00:00"),
		s("int", "1a"), s("ints", "1,a"), s("ints=-", "1,2"), s("float", "1"), s("unique", "a,a"), s("json", "{"), s("prefix=zz", "abc"), s("suffix=zz", "abc"),
		// CJK in the rule's own argument or in the judged value: the label follows the message alone
		s("in=(男/女)", "x"), s("in=('好,的'/是)", "否"), s("include=(测试)", "abc"), s("prefix=测试", "abc"), s("suffix=验证", "abc测试"), s("to=1~2", "测试测"), s("phone", "手机号"),
		s("ints=、", "1,2"), s("date='年'", "1996-01-01"), s("eq=2", "长度一"),
		// long values (limits inside individual rules must not swallow the message)
		s("json", "{"+strings.Repeat("\\", 200)), s("json", "{"+strings.Repeat("'", 130)), s("json", "{"+strings.Repeat("\\", 127)), s("json", "{"+strings.Repeat("x\t", 100)), s("json", "{"+strings.Repeat("'", 255)),
		s("json", "{"+strings.Repeat("a", 300)), s("json", strings.Repeat("[", 257)), s("json", "{\"k\":"+strings.Repeat("1", 1000)), s("to=1~2", strings.Repeat("a", 300)), s("phone", strings.Repeat("1", 300)),
		s("email", strings.Repeat("a", 300)), s("in=(a/b)", strings.Repeat("ab", 200)), s("prefix=zz", strings.Repeat("y", 1000)), s("unique", strings.Repeat("a,", 300)), s("ints", strings.Repeat("1,", 300)+"x"),
		s("date", strings.Repeat("1996-01-01", 30)), s("ip", strings.Repeat("1.", 200)), s("idcard", strings.Repeat("1", 257)),
		s("required", ""), s("file", "DIR"), s("dir", "FILE"), s("file", "MISSING"), s("dir", "MISSING"),
		s("file", "THROUGHFILE"), s("dir", "THROUGHFILE"), s("file", "LONGNAME"), s("dir", "LONGNAME"),
		{item: "re='^a$'", t: desc.Scalar("string"), v: desc.Str("b"), re: "^a$"},
		// alternation: the pattern itself contains the character that starts a message
		{item: "re='^(yes|no)$'", t: desc.Scalar("string"), v: desc.Str("maybe"), re: "^(yes|no)$"},
		{item: "re='^(是|否)$'", t: desc.Scalar("string"), v: desc.Str("x"), re: "^(是|否)$"},
		{item: "re='^a,b|c$'", t: desc.Scalar("string"), v: desc.Str("zz"), re: "^a,b|c$"},
		{item: "to=1~2", t: desc.Scalar("int"), v: desc.V{I: 5}}, {item: "ge=5", t: desc.Scalar("uint8"), v: desc.V{U: 2}}, {item: "eq=2", t: desc.Scalar("float64"), v: desc.V{F: 2.5}},
		{item: "in=(1/2)", t: desc.Scalar("int64"), v: desc.V{I: 3}}, {item: "int", t: desc.Scalar("float32"), v: desc.V{F: 1.5}}, {item: "float", t: desc.Scalar("int"), v: desc.V{I: 3}},
		{item: "required", t: desc.Scalar("int"), v: desc.V{}}, {item: "required", t: desc.Slice(desc.Scalar("int")), v: desc.V{}},
		{item: "le=1", t: desc.Slice(desc.Scalar("string")), v: desc.V{E: []desc.V{desc.Str("a"), desc.Str("b")}}},
		{item: "unique", t: desc.Slice(desc.Scalar("int")), v: desc.V{E: []desc.V{{I: 1}, {I: 1}}}},
		{item: "ints", t: desc.Slice(desc.Scalar("string")), v: desc.V{E: []desc.V{desc.Str("1"), desc.Str("x")}}},
	}
	return out
}

var msgASCII = []rune("abcXYZ 019_-.:!?()=~/|+%")
var msgCJK = []rune("必填项请输入正确的值手机号长度一\u4e00\u9fa5谬丯")                          // incl. both ends of U+4E00..U+9FA5
var msgOtherScripts = []rune("テストéß한글😀\u4dff\u9fa6\u4000\u9fff\u3400｜İ\u212a") // no character in U+4E00..U+9FA5 (the neighbours just outside included): English label

func genMsg(t *rapid.T) (msg, class string) {
	class = rapid.SampledFrom([]string{"ascii", "ascii", "cjk", "cjk", "mixed", "other-script", "one-byte", "one-rune-cjk", "quoted-comma", "with-equals", "double-quoted-words", "long-ascii-then-cjk", "multi-line"}).Draw(t, "msgClass")
	build := func(pool []rune, lo, hi int) string {
		n := rapid.IntRange(lo, hi).Draw(t, "msgLen")
		var b strings.Builder
		for i := 0; i < n; i++ {
			b.WriteRune(rapid.SampledFrom(pool).Draw(t, "msgRune"))
		}
		return b.String()
	}
	switch class {
	case "ascii":
		msg = build(msgASCII, 2, 14)
	case "cjk":
		msg = build(msgCJK, 2, 10)
	case "mixed":
		msg = build(msgASCII, 1, 5) + build(msgCJK, 1, 4) + build(msgASCII, 0, 4)
	case "other-script":
		msg = build(msgOtherScripts, 2, 6)
	case "one-byte":
		msg = string(rapid.SampledFrom([]rune("xX7!=")).Draw(t, "oneByte"))
	case "one-rune-cjk":
		msg = string(rapid.SampledFrom(msgCJK).Draw(t, "oneRune"))
	case "quoted-comma":
		msg = "'" + build(msgASCII, 1, 4) + "," + build(msgCJK, 1, 3) + "'"
	case "with-equals":
		msg = build(msgASCII, 1, 3) + "=" + build(msgCJK, 0, 3) + build(msgASCII, 1, 3)
	}
	if class == "long-ascii-then-cjk" {
		// a long text for developers followed by one for the end user: the first CJK character sits
		// beyond the first 250 / 256 / 1000 bytes
		n := rapid.SampledFrom([]int{100, 250, 253, 254, 255, 256, 257, 300, 1000, 5000}).Draw(t, "asciiPrefix")
		msg = strings.Repeat("developer text ", n/15+1)[:n] + build(msgCJK, 1, 6)
	}
	if class == "multi-line" {
		msg = build(msgASCII, 1, 6) + "\n" + build(msgCJK, 0, 3) + rapid.SampledFrom([]string{"", "\n", "\nline 3"}).Draw(t, "mlTail")
	}
	if class == "double-quoted-words" {
		// answer must be "yes", "no" or "maybe"  (single-quoted as a whole because of the commas)
		msg = "'" + build(msgASCII, 1, 4) + ` "` + build(msgASCII, 1, 3) + `", "` + build(msgCJK, 0, 2) + `" ` + build(msgASCII, 0, 3) + "'"
	}
	return msg, class
}

func msgOK(msg string) bool {
	if msg == "" || model.AmbiguousMsg(msg) || strings.Contains(msg, ";") {
		return false
	}
	if strings.HasPrefix(msg, "'") != strings.HasSuffix(msg, "'") {
		return false
	}
	inner := strings.Trim(msg, "'")
	return !strings.Contains(inner, "'") && (strings.HasPrefix(msg, "'") || !strings.Contains(msg, ","))
}

func genC15Message(t *rapid.T) (*ScalarCase, string, string) {
	tab := violatingTable()
	v := rapid.SampledFrom(tab).Draw(t, "violating")
	msg, class := genMsg(t)
	if !msgOK(msg) {
		msg, class = "m1", "ascii"
	}
	c := &ScalarCase{T: v.t, Val: v.v, RePats: map[string]string{}}
	switch v.v.S {
	case "DIR":
		c.Val = desc.Str(fsPaths.dir)
	case "FILE":
		c.Val = desc.Str(fsPaths.file)
	case "MISSING":
		c.Val = desc.Str(fsPaths.missing)
	case "THROUGHFILE": // a path that runs through a regular file: it names nothing (and the system says so in other words than for a missing path)
		c.Val = desc.Str(fsPaths.throughFile)
	case "LONGNAME": // an element longer than any file system allows
		c.Val = desc.Str(fsPaths.longName)
	}
	item := v.item
	withMsg := rapid.IntRange(0, 5).Draw(t, "withMsg") > 0
	if withMsg {
		item += "|" + msg
	} else {
		class = "none"
		if v.re == "" && rapid.IntRange(0, 3).Draw(t, "emptyMsg") == 2 {
			item += "|" // an explicitly empty message (what GenValidKV(key, val, "") writes): the default wording
			class = "explicitly-empty"
		}
	}
	if v.re != "" {
		c.RePats[item] = v.re
	}
	c.Rules = []string{item}
	if rapid.Bool().Draw(t, "neighbour") && c.T.K == "string" && c.Val.S != "" {
		c.Rules = []string{"noeq=77777|nb", item}
		if r, _ := utf8.DecodeRuneInString(c.Val.S); safeOpt(string(r)) && r != utf8.RuneError && rapid.Bool().Draw(t, "quotedNeighbour") {
			// a satisfied rule with quoted options in front (rule list and option list are both split quote-aware): the
			// message of the rule behind it shows as written
			c.Rules = []string{"include=('zz,q'/'" + string(r) + "')|nb2", item}
		}
	}
	c.Carrier = rapid.SampledFrom(Carriers).Draw(t, "carrier")
	if c.Carrier == "mapiface" {
		c.Carrier = "map"
	}
	for i := 0; i < 8 && !c.carrierOK(); i++ {
		c.Carrier = Carriers[(indexOf(Carriers, c.Carrier)+1)%len(Carriers)]
	}
	if c.Carrier == "mapiface" {
		c.Carrier = "tag"
	}
	key, _, _ := model.ParseItem(v.item)
	finishScalar(t, c)
	if c.Carrier == "tag" && rapid.Bool().Draw(t, "decoy") {
		// an earlier call on the same struct type that overrides the rule with another
		// message (of the other label kind): the tag's own message must show afterwards
		c.Decoy = v.item + rapid.SampledFrom([]string{"|decoy message", "|诱饵说明", ""}).Draw(t, "decoyMsg")
	}
	return c, key, class
}

// explainSpec is the documented meaning of the extractor: the explanation parts
// (text after the first label of each clause that has one), in order, joined by
// the clause separator.
func explainSpec(errText string) string {
	var parts []string
	for _, cl := range strings.Split(errText, model.Sep) {
		zh, en := strings.Index(cl, "说明:"), strings.Index(cl, "explain:")
		at, l := -1, 0
		if zh >= 0 && (en < 0 || zh < en) {
			at, l = zh, len("说明:")
		} else if en >= 0 {
			at, l = en, len("explain:")
		}
		if at < 0 {
			continue
		}
		rest := cl[at+l:]
		rest = strings.TrimPrefix(rest, " ")
		parts = append(parts, rest)
	}
	return strings.Join(parts, model.Sep)
}

// ExtractCase holds an error text produced by the library.
type ExtractCase struct {
	Err string `json:"err"`
}

func checkExtract(c ExtractCase) string {
	want := explainSpec(c.Err)
	var got string
	if p := ev.Guard(func() { got = valid.GetOnlyExplainErr(c.Err) }); p != nil {
		return fmt.Sprintf("GetOnlyExplainErr panicked: %v", p)
	}
	if got != want {
		return fmt.Sprintf("GetOnlyExplainErr = %q, want %q", got, want)
	}
	// the strings returned earlier still read as they did (the last few are looked at after every call, each one once
	// more when its slot in the ring is taken - hundreds of calls later)
	for back := 1; back <= 4; back++ {
		if e := extractRing[(extractAt+len(extractRing)-back)%len(extractRing)]; e.got != e.want {
			return fmt.Sprintf("a string returned by GetOnlyExplainErr %d call(s) ago changed afterwards: was %q, now reads %q", back, e.want, e.got)
		}
	}
	if e := extractRing[extractAt]; e.got != e.want {
		return fmt.Sprintf("a string returned by GetOnlyExplainErr %d calls ago changed afterwards: was %q, now reads %q", len(extractRing), e.want, e.got)
	}
	if extractRing[extractAt].want != "" {
		ev.Class("extraction results re-read after 509 later calls")
	}
	extractRing[extractAt] = extractKept{got: got, want: strings.Clone(want)}
	extractAt = (extractAt + 1) % len(extractRing)
	return ""
}

type extractKept struct{ got, want string }

// extractRing: results of GetOnlyExplainErr as they were handed out, next to an independent copy of what they read then.
var (
	extractRing [509]extractKept
	extractAt   int
)

// genMixedError builds, through the library itself, an error whose clauses mix
// Chinese-labelled, English-labelled and unlabelled clauses in generated order.
func genMixedError(t *rapid.T) (errText string, kinds []string) {
	n := rapid.IntRange(1, 8).Draw(t, "nClauses")
	st := desc.T{K: "struct"}
	val := desc.V{}
	names := []string{"A", "B", "C", "D", "E", "F", "G", "H", "I"}
	for i := 0; i < n; i++ {
		kind := rapid.SampledFrom([]string{"zh", "en", "default", "unknown", "malformed", "group", "single-group", "satisfied"}).Draw(t, "clauseKind")
		kinds = append(kinds, kind)
		f := desc.F{Name: names[i], T: desc.Scalar("string")}
		v := desc.Str("abc")
		switch kind {
		case "zh":
			f.Tags = map[string]string{"valid": fmt.Sprintf("to=5~9|长度不对%d", i)}
		case "en":
			f.Tags = map[string]string{"valid": fmt.Sprintf("phone|bad phone %d", i)}
		case "default":
			f.Tags = map[string]string{"valid": rapid.SampledFrom([]string{"ge=9", "email", "in=(x/y)", "date"}).Draw(t, "defRule")}
		case "unknown":
			f.Tags = map[string]string{"valid": "nosuch"}
		case "malformed":
			f.Tags = map[string]string{"valid": rapid.SampledFrom([]string{"to=5", "in=1/2"}).Draw(t, "malformed")}
		case "group":
			f.Tags = map[string]string{"valid": "either=7"}
			v = desc.V{}
		case "single-group":
			f.Tags = map[string]string{"valid": fmt.Sprintf("botheq=%d", 100+i)}
		case "satisfied":
			f.Tags = map[string]string{"valid": "le=9|fine"}
		}
		st.Fields = append(st.Fields, f)
		val.E = append(val.E, v)
	}
	rv := desc.Build(desc.Type(desc.Ptr(st)), desc.V{E: []desc.V{val}})
	err := valid.Struct(rv.Interface())
	if err == nil {
		return "", kinds
	}
	return err.Error(), kinds
}

func TestC15(t *testing.T) {
	cleanup := setupFS()
	defer cleanup()
	t.Run("message", func(t *testing.T) {
		rapid.Check(t, func(t *rapid.T) {
			c, key, class := genC15Message(t)
			if x := c05Excluded(c); x != "" && !(key == "required") {
				ev.Excluded(x)
				return
			}
			res := c.expect()
			if len(res.Excluded) > 0 {
				ev.Excluded(res.Excluded[0])
				return
			}
			errText, isNil, panicked := c.run()
			msg := ""
			if panicked != nil {
				msg = fmt.Sprintf("panic: %v", panicked)
			} else {
				msg = model.Compare(res, errText, isNil, true)
			}
			ev.Class("rule=" + key)
			ev.Class("message=" + class)
			ev.Class("carrier=" + c.Carrier)
			ev.Case(c.key(), class != "none", func() interface{} { return c })
			if msg != "" {
				ev.Fail(t, "C15", "message", c, "%s", msg)
			}
			// the single clause also goes through the extractor
			if !isNil {
				if m := checkExtract(ExtractCase{errText}); m != "" {
					ev.Fail(t, "C15", "extract", ExtractCase{errText}, "%s", m)
				}
			}
		})
	})
	t.Run("extract", func(t *testing.T) {
		rapid.Check(t, func(t *rapid.T) {
			var errText string
			var kinds []string
			if rapid.IntRange(0, 3).Draw(t, "source") == 0 {
				// any error of the struct walker (C02 generator)
				c := genC02Case(t)
				_, et, isNil, panicked := runStructCase(c)
				if panicked != nil || isNil {
					return
				}
				errText, kinds = et, []string{"c02"}
			} else {
				errText, kinds = genMixedError(t)
			}
			if errText == "" {
				return
			}
			labels := map[string]bool{}
			for _, cl := range strings.Split(errText, model.Sep) {
				switch {
				case strings.Contains(cl, "说明:"):
					labels["zh"] = true
				case strings.Contains(cl, "explain:"):
					labels["en"] = true
				default:
					labels["none"] = true
				}
			}
			ev.Class(fmt.Sprintf("label-kinds=%d", len(labels)))
			if kinds[0] == "c02" {
				ev.Class("source=c02-generator")
			} else {
				ev.Class("source=mixed-label-struct")
			}
			c := ExtractCase{errText}
			ev.Case("x:"+errText, len(labels) >= 2 && strings.Count(errText, model.Sep) >= 1, func() interface{} { return c })
			if m := checkExtract(c); m != "" {
				ev.Fail(t, "C15", "extract", c, "%s", m)
			}
		})
	})
}

func TestC15Replay(t *testing.T) {
	cleanup := setupFS()
	defer cleanup()
	for _, f := range ev.ReplayFiles() {
		rp, err := ev.LoadReplay(f)
		if err != nil {
			t.Fatalf("replay %s: %v", f, err)
		}
		ev.Class("replayed")
		if rp.Sub == "extract" {
			var c ExtractCase
			if err := jsonUnmarshal(rp.Case, &c); err != nil {
				t.Fatalf("replay %s: %v", f, err)
			}
			if m := checkExtract(c); m != "" {
				ev.Fail(t, "C15", "extract", c, "%s (replay %s)", m, f)
			}
			continue
		}
		var c ScalarCase
		if err := jsonUnmarshal(rp.Case, &c); err != nil {
			t.Fatalf("replay %s: %v", f, err)
		}
		res := c.expect()
		errText, isNil, panicked := c.run()
		if panicked != nil {
			ev.Fail(t, "C15", rp.Sub, &c, "panic: %v (replay %s)", panicked, f)
		}
		if m := model.Compare(res, errText, isNil, true); m != "" {
			ev.Fail(t, "C15", rp.Sub, &c, "%s (replay %s)", m, f)
		}
	}
}
