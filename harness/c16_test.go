package harness

import (
	"fmt"
	"strings"
	"testing"

	"pgregory.net/rapid"

	"verifharness/desc"
	"verifharness/ev"
	"verifharness/lib"
	"verifharness/model"
)

// ---- C16: programmatic rules and functions override declared ones, with documented scope ----

// The rule-name pool mixes the three resolution levels: names defined for this
// call, names registered globally in TestMain (one of which, "dir", shadows a
// built-in in this process), built-ins, and unknown names.
var c16Names = []string{"cfn1", "cfn2", "gcustom1", "gcustom2", "shadowed", "dir", "phone", "nosuch", "Nope", "botheq=7", "exist", "Phone", "REQUIRED", "Cfn1", "Gcustom1", "Exist"} // (names differ by case: Phone is not phone)

func genC16Case(t *rapid.T) *StructCase {
	callFns := []string{}
	for _, n := range []string{"cfn1", "cfn2", "shadowed", "gcustom2", "phone"} {
		// "shadowed"/"gcustom2" are also registered globally, "phone" is a built-in: the per-call definition must win
		if rapid.IntRange(0, 2).Draw(t, "call-"+n) == 0 {
			callFns = append(callFns, n)
		}
	}
	for _, n := range []string{"required", "exist"} {
		// the names the struct validator implements itself resolve like any other name:
		// a function given for the call replaces them (in this process "botheq" is
		// moreover registered globally)
		if rapid.IntRange(0, 7).Draw(t, "call-"+n) == 0 {
			callFns = append(callFns, n)
		}
	}
	var c *StructCase
	if rapid.IntRange(0, 14).Draw(t, "sameNameTypes") == 0 {
		// two distinct struct types that print alike, side by side; a rule set registered for one of them
		item := func(label string) desc.V {
			return desc.V{E: []desc.V{desc.Str(rapid.SampledFrom([]string{"", "ab", "abcd"}).Draw(t, label+"Name")), {I: int64(rapid.IntRange(0, 3).Draw(t, label+"N"))}}}
		}
		holder := desc.T{K: "struct", Fields: []desc.F{
			{Name: "A", T: desc.Named("ItemA"), Tags: map[string]string{"valid": "required"}},
			{Name: "B", T: desc.Named("ItemB"), Tags: map[string]string{"valid": "required"}},
			{Name: "As", T: desc.Slice(desc.Ptr(desc.Named("ItemA"))), Tags: map[string]string{"valid": "exist"}},
			{Name: "Bs", T: desc.Map(desc.Scalar("string"), desc.Named("ItemB")), Tags: map[string]string{"valid": "exist"}},
		}}
		c = &StructCase{Root: desc.Ptr(holder), Val: desc.V{E: []desc.V{{E: []desc.V{item("a"), item("b"),
			{E: []desc.V{{E: []desc.V{item("as")}}}}, {K: []desc.V{desc.Str("k")}, E: []desc.V{item("bs")}}}}}},
			PerType: map[string]map[string]string{}}
		which := rapid.SampledFrom([]string{"ItemA", "ItemB"}).Draw(t, "ruledType")
		c.PerType[which] = map[string]string{"Name": rapid.SampledFrom([]string{"to=3~9|per-type name", "prefix=a|per-type name"}).Draw(t, "ptRule")}
		c.CallFns = callFns
		c.pickEntry(rapid.IntRange(0, 7).Draw(t, "entry"))
		return c
	}
	if rapid.IntRange(0, 11).Draw(t, "taggedNamed") == 5 {
		// named types that carry their rules (and the markers of nested validation) in TAGS: an override
		// without the markers for a marked field switches the descent off for that field, also when the
		// nested type has a rule set of its own in the same call
		c = &StructCase{Root: desc.Ptr(desc.Named("EntsT")), Val: desc.V{E: []desc.V{genValueRT(t, lib.Types["EntsT"], 0, rapid.IntRange(2, 4).Draw(t, "tnDepth"))}}}
		c.Unscoped = map[string]string{rapid.SampledFrom([]string{"First", "Items", "ByKey"}).Draw(t, "tnField"): rapid.SampledFrom([]string{"nosuch", "nosuch,Nope"}).Draw(t, "tnRule")}
		c.PerType = map[string]map[string]string{"DirT": {"Note": "required|note by type set"}}
		if rapid.Bool().Draw(t, "tnMore") {
			c.PerType["DirT"]["Name"] = "to=1~2|name by type set"
		}
		c.CallFns = callFns
		c.pickEntry(rapid.IntRange(0, 7).Draw(t, "entry"))
		return c
	}
	if rapid.IntRange(0, 3).Draw(t, "mode") > 0 {
		c = genNamedCase(t, namedOpts{roots: []string{"Top", "Mid", "Tree", "Alias"}, marks: []string{"required", "exist", "required", "-"},
			msgMode: 3, maxDepth: 3, density: 5, extra: c16Names, unscoped: true,
			topShapes: []string{"ptr", "ptr", "ptr", "val", "ptrptr", "slice", "sliceptr", "mapstr", "mapint", "arrayval"}})
		if c.Root.K == "slice" || c.Root.K == "map" || c.Root.K == "array" {
			// a top-level collection: every element resolves rule names like a single struct does.
			// (What "outermost" means for an unscoped rule set is then undecided: per-type sets only.)
			c.Unscoped = nil
			if c.PerType == nil {
				c.PerType = map[string]map[string]string{}
			}
			if c.PerType[rootOf(c)] == nil {
				c.PerType[rootOf(c)] = map[string]string{}
			}
			// either / botheq groups among the elements' fields: their bookkeeping shares the per-call state with the function table
			for k, v := range genGroupRM(t, lib.Types[rootOf(c)], 10) {
				if c.PerType[rootOf(c)][k] == "" {
					c.PerType[rootOf(c)][k] = v
				} else {
					c.PerType[rootOf(c)][k] += "," + v
				}
			}
			// and a name given for the call on a field of every element
			c.PerType[rootOf(c)]["Name"] = strings.TrimPrefix(c.PerType[rootOf(c)]["Name"]+","+rapid.SampledFrom(c16Names[:5]).Draw(t, "elemName"), ",")
		}
		// partially overlapping / empty per-type sets
		for name := range c.PerType {
			switch rapid.IntRange(0, 6).Draw(t, "rmShape-"+name) {
			case 0:
				if name != rootOf(c) { // (an empty set for the outermost type next to an unscoped one is undecided by the docs)
					c.PerType[name] = map[string]string{}
				}
			case 1:
				delete(c.PerType, name)
			}
		}
		if c.Unscoped != nil {
			// which of the two wins when the outermost type has its own set *and* an
			// unscoped set is given is not decided by the documentation: not generated
			delete(c.PerType, rootOf(c))
		}
	} else {
		// synthesised types with tag rules, partly overridden by an unscoped rule set
		mg := &msgGen{mode: 3}
		g := &structGen{t: t, mg: mg, tag: rapid.SampledFrom([]string{"valid", "valid", "rule"}).Draw(t, "tag"), maxDepth: 2, maxField: 6,
			containerMarks: []string{"required", "exist", "-"}, scalarKinds: []string{"string", "int", "uint8", "float64"}}
		g.leafRules = func(kind string, v desc.V) string {
			r := genRuleItems(t, kind, v, mg, 3, true)
			if rapid.IntRange(0, 3).Draw(t, "customInTag") == 0 {
				r = strings.TrimPrefix(r+","+rapid.SampledFrom(c16Names).Draw(t, "tagName"), ",")
			}
			return r
		}
		ty, _ := g.genStruct(0)
		// either / botheq groups: their bookkeeping shares the per-call state with the function table
		walkTypes(&ty, func(st *desc.T) { addGroups(t, st, g.tag) })
		c = &StructCase{Root: desc.Ptr(ty), Val: desc.V{E: []desc.V{g.genValueFor(ty, 0)}}}
		if g.tag != "valid" {
			c.Tag = g.tag
		}
		// json tags: a json name may equal ANOTHER field's Go name, or no field name at all
		jsonNames := []string{}
		if rapid.IntRange(0, 2).Draw(t, "jsonTags") == 1 {
			for i := range ty.Fields {
				f := &ty.Fields[i]
				if f.Tags == nil {
					f.Tags = map[string]string{}
				}
				jn := strings.ToLower(f.Name)
				if i+1 < len(ty.Fields) && rapid.IntRange(0, 3).Draw(t, "jsonNameOfNeighbour") == 2 {
					jn = ty.Fields[i+1].Name // the json name of this field is the Go name of the next one
				}
				f.Tags["json"] = jn + rapid.SampledFrom([]string{"", ",omitempty"}).Draw(t, "jsonOpt")
				jsonNames = append(jsonNames, jn)
			}
			c = &StructCase{Root: desc.Ptr(ty), Val: desc.V{E: []desc.V{g.genValueFor(ty, 0)}}}
			if g.tag != "valid" {
				c.Tag = g.tag
			}
		}
		if rapid.Bool().Draw(t, "override") {
			c.Unscoped = map[string]string{}
			// keys that name no field (a json name, a lower-case spelling) select nothing
			for _, jn := range jsonNames {
				if rapid.IntRange(0, 2).Draw(t, "jsonKey") == 1 && !desc.Exported(jn) {
					c.Unscoped[jn] = "required|by json name," + genSizeRule(t, 2, "jk") + "|json key"
				}
			}
			for _, f := range ty.Fields {
				if f.T.K == "string" || f.T.K == "int" {
					switch rapid.IntRange(0, 3).Draw(t, "ov-"+f.Name) {
					case 0:
						c.Unscoped[f.Name] = "required|ov" + f.Name + "," + rapid.SampledFrom(c16Names).Draw(t, "ovName")
					case 1:
						c.Unscoped[f.Name] = genSizeRule(t, 2, "ov") + "|ov" + f.Name
					}
				}
			}
		}
	}
	c.CallFns = callFns
	c.pickEntry(rapid.IntRange(0, 7).Draw(t, "entry"))
	if len(c.PerType) > 0 {
		c.Token = rapid.SampledFrom([]string{"", "", "", "nilptr", "ptrptr", "value"}).Draw(t, "typeToken")
	}
	if rapid.IntRange(0, 7).Draw(t, "lateReg") == 0 {
		// a global function registered while the call is being set up (for the builder entry: after
		// the validator object exists): the name resolves to it when the validation runs
		c.LateReg = "LATE1"
		if c.Unscoped == nil {
			c.Unscoped = map[string]string{}
		}
		if len(c.PerType) > 0 {
			c.Unscoped = nil
			for _, rm := range c.PerType {
				for k := range rm {
					rm[k] += ",LATE1"
				}
			}
		} else {
			c.Unscoped["Name"] = "LATE1"
			c.Unscoped["A"] = "to=1~2|late,LATE1"
		}
		if rapid.Bool().Draw(t, "lateBuilder") {
			c.Entry = "VStruct"
		} else {
			c.pickEntry(rapid.IntRange(0, 7).Draw(t, "entry2"))
		}
	} else if rapid.IntRange(0, 15).Draw(t, "lateTag") == 9 && addLateTagField(c) {
		// a TAG names a function nobody has registered yet; the type is validated once (so whatever the
		// library remembers about the type exists), THEN the function is registered globally, then comes
		// the call: the name resolves to the function when the validation runs
		c.LateReg, c.Warm = "LATE1", true
		// ... or the name is known at the first validation already and registered AGAIN, with another function, before the call
		c.ReReg = rapid.Bool().Draw(t, "reRegister")
	}
	return c
}

// addLateTagField appends a string field whose tag names LATE1 to a synthesised outermost struct type.
func addLateTagField(c *StructCase) bool {
	if c.Tag == emptyTag {
		return false
	}
	ty, v := &c.Root, &c.Val
	for ty.K == "ptr" {
		if v.Nil || len(v.E) == 0 || v.Share > 0 || v.Interior > 0 {
			return false
		}
		ty, v = ty.Elem, &v.E[0]
	}
	if ty.K != "struct" || len(v.E) != len(ty.Fields) {
		return false
	}
	ty.Fields = append(ty.Fields[:len(ty.Fields):len(ty.Fields)], desc.F{Name: "Late9", T: desc.Scalar("string"), Tags: map[string]string{c.tagName(): "LATE1"}})
	v.E = append(v.E[:len(v.E):len(v.E)], desc.Str("x"))
	return true
}

func rootOf(c *StructCase) string {
	r := c.Root
	for r.K != "named" && r.Elem != nil {
		r = *r.Elem
	}
	return r.Name
}

func checkC16(c *StructCase) (msg string, res *model.Result, skipped string) {
	res, errText, isNil, panicked := runStructCase(c)
	if panicked != nil {
		return fmt.Sprintf("panic: %v", panicked), res, ""
	}
	if len(res.Excluded) > 0 {
		return "", res, res.Excluded[0]
	}
	return model.Compare(res, errText, isNil, false), res, ""
}

// c16Facts derives the non-triviality facts from the case itself.
func c16Facts(c *StructCase) (sharedNameOneSided bool, twoLevels bool, overrideOfTag bool) {
	// a field name carried by an inner and an outer type where exactly one of them has a rule for it
	count := map[string][2]int{}
	for tn := range lib.Types {
		rt := lib.Types[tn]
		for i := 0; i < rt.NumField(); i++ {
			n := rt.Field(i).Name
			x := count[n]
			x[0]++
			if c.PerType[tn][n] != "" {
				x[1]++
			}
			count[n] = x
		}
	}
	for _, x := range count {
		if x[0] >= 2 && x[1] >= 1 && x[1] < x[0] {
			sharedNameOneSided = true
		}
	}
	used := func(name string) bool {
		for _, rm := range c.PerType {
			for _, r := range rm {
				if strings.Contains(","+r+",", ","+name+",") {
					return true
				}
			}
		}
		for _, r := range c.Unscoped {
			if strings.Contains(","+r+",", ","+name+",") {
				return true
			}
		}
		b := c02Key(c)
		return strings.Contains(b, ","+name+"\"") || strings.Contains(b, "\""+name+",") || strings.Contains(b, ","+name+",")
	}
	for _, n := range c.CallFns {
		if (globalFnNames[n] || model.IsBuiltin(n)) && used(n) {
			twoLevels = true
		}
	}
	if used("dir") || used("shadowed") {
		twoLevels = true
	}
	overrideOfTag = c.Unscoped != nil && c.Root.K == "ptr" && c.Root.Elem.K == "struct"
	return
}

// propC16 is the property; TestC16 drives it with rapid's random generator, FuzzC16Rapid with the coverage-guided
// native fuzzer (thorough tier: rapid.MakeFuzz turns the fuzzer's bytes into the draws).
func propC16(t *rapid.T) {
	c := genC16Case(t)
	if c.Entry == "VStruct" && rapid.IntRange(0, 3).Draw(t, "twice") == 2 {
		// every rule set is registered twice for its target (decoy first), and a decoy set is handed over
		// with two type tokens, which registers nothing
		c.Twice = true
		ev.Class("decoy registrations (replaced set, multi-token call)")
	}
	if c.Entry == "VStruct" && !c.Twice && rapid.IntRange(0, 3).Draw(t, "lateFill") == 1 {
		c.LateFill = true
		ev.Class("rule sets handed over empty and filled before Valid")
	}
	msg, res, skipped := checkC16(c)
	if skipped != "" {
		ev.Excluded(skipped)
		return
	}
	shared, two, ov := c16Facts(c)
	if shared {
		ev.Class("shared-field-name-ruled-in-one-type-only")
	}
	if two {
		ev.Class("rule-name-defined-at-two-levels")
	}
	if ov {
		ev.Class("unscoped-set-over-tag-rules")
	}
	if c.Unscoped != nil {
		ev.Class("has-unscoped-set")
	}
	ev.Class(fmt.Sprintf("pertype-sets=%d", len(c.PerType)))
	ev.Class("entry=" + c.Entry)
	ev.Class(fmt.Sprintf("violations=%s", bucket(res.Violations)))
	ev.Case(c02Key(c), (shared || two || ov) && res.Violations > 0, func() interface{} { return c })
	if msg != "" {
		ev.Fail(t, "C16", "resolution", c, "%s", msg)
	}
}

func TestC16(t *testing.T) { rapid.Check(t, propC16) }

func FuzzC16Rapid(f *testing.F) { f.Fuzz(rapid.MakeFuzz(propC16)) }

func TestC16Replay(t *testing.T) {
	replayStructCases(t, "C16", func(c *StructCase) string {
		msg, _, _ := checkC16(c)
		return msg
	})
}
