package harness

import (
	"fmt"
	"math"
	"net/url"
	"reflect"
	"sort"
	"strings"
	"testing"

	"gitee.com/xuesongtao/protoc-go-valid/valid"
	"pgregory.net/rapid"

	"verifharness/desc"
	"verifharness/ev"
	"verifharness/lib"
	"verifharness/model"
)

// ---- C17: either / botheq groups are judged per object, all-empty and all-equal ----

// genGroupRM assigns 1..3 groups to same-kind fields of a library type.
func genGroupRM(t *rapid.T, rt reflect.Type, firstID int) map[string]string {
	rm := map[string]string{}
	byKind := map[reflect.Kind][]string{}
	for i := 0; i < rt.NumField(); i++ {
		f := rt.Field(i)
		if f.PkgPath == "" && (f.Type.Kind() == reflect.String || f.Type.Kind() == reflect.Int) {
			byKind[f.Type.Kind()] = append(byKind[f.Type.Kind()], f.Name)
		}
	}
	n := rapid.IntRange(1, 3).Draw(t, "nGroups")
	for g := 0; g < n; g++ {
		kind := rapid.SampledFrom([]string{"either", "botheq"}).Draw(t, "groupKind")
		fields := byKind[rapid.SampledFrom([]reflect.Kind{reflect.String, reflect.Int}).Draw(t, "memberKind")]
		if len(fields) == 0 {
			continue
		}
		k := rapid.IntRange(1, len(fields)).Draw(t, "nMembers")
		perm := rapid.Permutation(fields).Draw(t, "members")[:k]
		// group ids are drawn from a small set, so an either group and a botheq group of
		// one object can carry the same id (they are still two groups)
		id := firstID + rapid.IntRange(0, 1).Draw(t, "groupID")
		for _, name := range perm {
			item := fmt.Sprintf("%s=%d", kind, id)
			if strings.Contains(","+rm[name]+",", ","+item+",") {
				continue
			}
			if rm[name] == "" {
				rm[name] = item
				if rapid.IntRange(0, 5).Draw(t, "ownRule") == 1 {
					rm[name] = "required," + item
				}
			} else {
				rm[name] += "," + item
			}
		}
	}
	return rm
}

func genC17Struct(t *rapid.T) *StructCase {
	if rapid.IntRange(0, 3).Draw(t, "mode") == 0 {
		// synthesised types: members of every comparable kind
		mg := &msgGen{}
		g := &structGen{t: t, mg: mg, tag: "valid", maxDepth: 2, maxField: 6, containerMarks: []string{"required", "exist"},
			scalarKinds: []string{"string", "int", "uint8", "float64", "bool", "int64", "float32", "uint64", "int64"}}
		g.leafRules = func(string, desc.V) string { return "" }
		ty, _ := g.genStruct(0)
		// some members are pointers to scalars (optional fields of generated code): a nil
		// pointer is empty, and two pointers are equal when they point to equal values
		walkTypes(&ty, func(st *desc.T) {
			for i := range st.Fields {
				f := &st.Fields[i]
				if f.T.Elem == nil && f.T.K != "struct" && f.T.K != "time" && rapid.IntRange(0, 3).Draw(t, "ptrMember") == 0 {
					f.T = desc.Ptr(f.T)
				}
			}
		})
		walkTypes(&ty, func(st *desc.T) { forceGroups(t, st) })
		top := g.genValueFor(ty, 0)
		// botheq members of the 64-bit integer kinds: neighbours far above 2^53 (equal as float64, different as integers)
		if rapid.Bool().Draw(t, "bigMembers") {
			for i, f := range ty.Fields {
				if i >= len(top.E) || !strings.Contains(f.Tags["valid"], "botheq=") {
					continue
				}
				d := uint64(rapid.IntRange(0, 1).Draw(t, "bigDelta"))
				switch f.T.K {
				case "int64", "int":
					top.E[i] = desc.V{I: int64(rapid.SampledFrom([]uint64{1 << 53, 1 << 62, math.MaxInt64 - 1}).Draw(t, "bigBase") + d)}
				case "uint64", "uint":
					top.E[i] = desc.V{U: rapid.SampledFrom([]uint64{1 << 53, 1 << 63, math.MaxUint64 - 1}).Draw(t, "bigBaseU") + d}
				}
			}
		}
		// botheq members that are pointers: equal values in DIFFERENT allocations (and, sometimes, one differing)
		if rapid.Bool().Draw(t, "equalPointees") {
			differ := rapid.IntRange(0, 2).Draw(t, "onePointeeDiffers") == 0
			first := true
			for i, f := range ty.Fields {
				if i >= len(top.E) || f.T.K != "ptr" || f.T.Elem.Elem != nil || !strings.Contains(f.Tags["valid"], "botheq=") {
					continue
				}
				var pv desc.V
				switch f.T.Elem.K {
				case "string":
					pv = desc.Str("same")
				case "bool":
					pv = desc.V{B: true}
				case "float64", "float32":
					pv = desc.V{F: 1.5}
				case "uint8", "uint64", "uint":
					pv = desc.V{U: 7}
				default:
					pv = desc.V{I: 7}
				}
				if differ && !first && f.T.Elem.K == "string" {
					pv = desc.Str("other")
				}
				first = false
				top.E[i] = desc.V{E: []desc.V{pv}}
			}
		}
		c := &StructCase{Root: desc.Ptr(ty), Val: desc.V{E: []desc.V{top}}}
		if rapid.Bool().Draw(t, "mapTop") {
			c.Root = desc.Map(desc.Scalar("string"), ty)
			c.Val = g.genValueFor(c.Root, 0)
		}
		return c
	}
	c := genNamedCase(t, namedOpts{roots: []string{"Mid", "Top", "Tree"}, marks: []string{"required", "exist", "exist"}, msgMode: 0, maxDepth: 3, density: 0})
	c.PerType = map[string]map[string]string{}
	for i, name := range reachable(rootOf(c)) {
		rt := lib.Types[name]
		rm := genRMFor(t, rt, &msgGen{}, []string{"required", "exist", "exist"}, nil, 0)
		if rapid.IntRange(0, 4).Draw(t, "groups-"+name) > 0 {
			for k, v := range genGroupRM(t, rt, 10*(i+1)) {
				rm[k] = v
			}
		}
		c.PerType[name] = rm
	}
	return c
}

// forceGroups is addGroups without the coin flip.
func forceGroups(t *rapid.T, ty *desc.T) {
	kindKey := func(ft desc.T) string {
		if ft.K == "ptr" {
			return "ptr:" + ft.Elem.K
		}
		return ft.K
	}
	var scal []int
	for i, f := range ty.Fields {
		scalar := f.T.Elem == nil && f.T.K != "struct" && f.T.K != "time"
		ptrScalar := f.T.K == "ptr" && f.T.Elem.Elem == nil && f.T.Elem.K != "struct" && f.T.Elem.K != "time" && f.T.Elem.K != "named"
		if (scalar || ptrScalar) && desc.Exported(f.Name) {
			scal = append(scal, i)
		}
	}
	if len(scal) == 0 {
		return
	}
	n := rapid.IntRange(1, 2).Draw(t, "nGroups")
	for g := 1; g <= n; g++ {
		kind := rapid.SampledFrom([]string{"either", "botheq"}).Draw(t, "groupKind")
		want := kindKey(ty.Fields[scal[rapid.IntRange(0, len(scal)-1).Draw(t, "kindOf")]].T)
		id := rapid.SampledFrom([]string{"1", "2", "1", "2", "01", "+1", "1.0", "x"}).Draw(t, "groupID") // ids are TEXT: 1, 01 and +1 name three groups
		for _, i := range scal {
			f := &ty.Fields[i]
			if kindKey(f.T) != want || rapid.IntRange(0, 3).Draw(t, "member") == 0 {
				continue
			}
			if f.Tags == nil {
				f.Tags = map[string]string{}
			}
			item := fmt.Sprintf("%s=%s", kind, id)
			if strings.Contains(","+f.Tags["valid"]+",", ","+item+",") {
				continue
			}
			if f.Tags["valid"] == "" {
				f.Tags["valid"] = item
				// a member may carry rules of its own in front of (or behind) the group rule: it stays a member
				own := rapid.IntRange(0, 7).Draw(t, "ownRule")
				if f.T.K == "ptr" && own >= 4 {
					// (a value rule on a pointer member echoes the ADDRESS, which differs from one execution
					// to the next: checks that compare two executions of a call would see a difference)
					own = 0
				}
				switch own {
				case 1:
					f.Tags["valid"] = "required," + item
				case 2:
					f.Tags["valid"] = item + ",required|own"
				case 3:
					f.Tags["valid"] = "nosuchrule," + item
				case 4:
					f.Tags["valid"] = "in=('x,y'/x/y/zz/7)," + item // a quoted rule list with the group rule last
				case 5:
					f.Tags["valid"] = item + ",in=('p,q'/x/y/zz/7)|own in" // ... and one that ends otherwise
				}
			} else {
				f.Tags["valid"] += "," + item
			}
		}
	}
}

// GroupMapCase: map / list-of-maps / URL input with group rules on its keys.
type GroupMapCase struct {
	Carrier string              `json:"carrier"` // map-string | map-int | listmap | url | urlenc
	Maps    []map[string]string `json:"maps"`    // one map (or several for listmap); values as text
	Order   []string            `json:"order"`   // url: parameter order
	Rules   map[string]string   `json:"rules"`
	// Dups: url: values of further occurrences of a parameter, placed right before its own
	// occurrence (?a=&a=x): every occurrence is a member of the parameter's groups
	Dups map[string][]string `json:"dups,omitempty"`
}

func genGroupMapCase(t *rapid.T) *GroupMapCase {
	c := &GroupMapCase{Carrier: rapid.SampledFrom([]string{"map-string", "map-int", "listmap", "url", "urlenc"}).Draw(t, "carrier"), Rules: map[string]string{}}
	if rapid.IntRange(0, 19).Draw(t, "manyGroups") == 9 {
		// dozens of groups in one object, interleaved: group i has the members k<i> and k<2n-1-i>, so the
		// oldest groups get their second member after all the others were created
		n := rapid.SampledFrom([]int{16, 17, 18, 33, 40}).Draw(t, "nManyGroups")
		kind := rapid.SampledFrom([]string{"either", "botheq"}).Draw(t, "manyKind")
		pool := []string{"", "", "x", "y"}
		if c.Carrier == "map-int" {
			pool = []string{"0", "0", "1", "2"}
		}
		m := map[string]string{}
		for i := 0; i < n; i++ {
			a, b := fmt.Sprintf("k%02d", i), fmt.Sprintf("k%02d", 2*n-1-i)
			item := fmt.Sprintf("%s=g%d", kind, i)
			c.Rules[a], c.Rules[b] = item, item
			m[a], m[b] = rapid.SampledFrom(pool).Draw(t, "mv"), rapid.SampledFrom(pool).Draw(t, "mv2")
			c.Order = append(c.Order, a)
		}
		for i := n; i < 2*n; i++ {
			c.Order = append(c.Order, fmt.Sprintf("k%02d", i))
		}
		c.Maps = []map[string]string{m}
		return c
	}
	keys := []string{"a", "b", "c", "d"}
	n := rapid.IntRange(1, 3).Draw(t, "nGroups")
	for g := 1; g <= n; g++ {
		kind := rapid.SampledFrom([]string{"either", "botheq"}).Draw(t, "groupKind")
		k := rapid.IntRange(1, 4).Draw(t, "nMembers")
		id := rapid.SampledFrom([]string{"1", "2", "1", "2", "01", "+1", "x"}).Draw(t, "groupID") // ids are text
		for _, key := range rapid.Permutation(keys).Draw(t, "members")[:k] {
			item := fmt.Sprintf("%s=%s", kind, id)
			if strings.Contains(","+c.Rules[key]+",", ","+item+",") {
				continue
			}
			if c.Rules[key] == "" {
				c.Rules[key] = item
			} else {
				c.Rules[key] += "," + item
			}
		}
	}
	nm := 1
	if c.Carrier == "listmap" {
		nm = rapid.IntRange(1, 3).Draw(t, "nMaps")
	}
	pool := []string{"", "", "x", "y", "x", " ", "\t", "\u3000"} // (a blank is not empty)
	if c.Carrier == "map-int" {
		pool = []string{"0", "0", "1", "2", "1"}
	}
	for i := 0; i < nm; i++ {
		m := map[string]string{}
		for _, key := range keys {
			if rapid.IntRange(0, 4).Draw(t, "present") > 0 {
				m[key] = rapid.SampledFrom(pool).Draw(t, "val")
			}
		}
		c.Maps = append(c.Maps, m)
	}
	c.Order = rapid.Permutation(keys).Draw(t, "order")
	if (c.Carrier == "url" || c.Carrier == "urlenc") && rapid.IntRange(0, 3).Draw(t, "dups") == 2 {
		c.Dups = map[string][]string{}
		for _, key := range keys {
			if _, ok := c.Maps[0][key]; ok && rapid.IntRange(0, 2).Draw(t, "dupKey") == 1 {
				c.Dups[key] = []string{rapid.SampledFrom(pool).Draw(t, "dupVal")}
			}
		}
	}
	return c
}

func (c *GroupMapCase) run() (string, bool, interface{}) {
	var err error
	rm := toRM(c.Rules)
	p := ev.Guard(func() {
		switch c.Carrier {
		case "map-string":
			err = valid.Map(c.Maps[0], rm)
		case "map-int":
			m := map[string]int{}
			for k, v := range c.Maps[0] {
				m[k] = int(v[0] - '0')
			}
			err = valid.Map(m, rm)
		case "listmap":
			err = valid.Map(c.Maps, rm)
		default:
			var ps []string
			for _, k := range c.Order {
				if v, ok := c.Maps[0][k]; ok {
					for _, d := range c.Dups[k] {
						ps = append(ps, k+"="+d)
					}
					ps = append(ps, k+"="+v)
				}
			}
			u := "http://h.com/p"
			if len(ps) > 0 {
				u += "?" + strings.Join(ps, "&")
			}
			if c.Carrier == "urlenc" {
				u = url.QueryEscape(u)
			}
			err = valid.Url(u, rm)
		}
	})
	if err == nil {
		return "", true, p
	}
	return err.Error(), false, p
}

// expect: per map (object), per group: members = the present keys carrying the
// rule; either violated iff all members empty, botheq iff not all equal, single
// member = rule-writing error.
func (c *GroupMapCase) expect() (res *model.Result, verdicts []string) {
	res = &model.Result{GroupObjs: map[string]int{}}
	zero := ""
	if c.Carrier == "map-int" {
		zero = "0"
	}
	for i, m := range c.Maps {
		name := func(k string) string {
			switch c.Carrier {
			case "map-string", "map-int":
				return "map[" + k + "]"
			case "listmap":
				return fmt.Sprintf("[%d]map[%s]", i, k)
			}
			return k
		}
		groups := map[string][]string{}
		for k, rules := range c.Rules {
			if _, ok := m[k]; !ok {
				continue
			}
			for _, item := range strings.Split(rules, ",") {
				groups[item] = append(groups[item], k)
			}
		}
		items := make([]string, 0, len(groups))
		for it := range groups {
			items = append(items, it)
		}
		sort.Strings(items)
		for _, item := range items {
			keysOf := groups[item]
			sort.Strings(keysOf)
			kind, _, _ := model.ParseItem(item)
			// the members: one per occurrence of a key (a URL may hold a parameter more than once)
			var names, vals []string
			for _, k := range keysOf {
				if c.Carrier == "url" || c.Carrier == "urlenc" {
					for _, d := range c.Dups[k] {
						names, vals = append(names, name(k)), append(vals, d)
					}
				}
				names, vals = append(names, name(k)), append(vals, m[k])
			}
			res.GroupObjs[fmt.Sprint(i)]++
			if len(names) == 1 {
				res.Groups = append(res.Groups, model.Exp{Kind: "single", Path: names[0], Members: names, GKind: kind, Item: item})
				res.Violations++
				verdicts = append(verdicts, "single")
				continue
			}
			bad := false
			if kind == "either" {
				bad = true
				for _, v := range vals {
					if v != zero {
						bad = false
					}
				}
			} else {
				for _, v := range vals[1:] {
					if v != vals[0] {
						bad = true
					}
				}
			}
			if bad {
				res.Groups = append(res.Groups, model.Exp{Kind: "group", Members: names, GKind: kind, Item: item})
				res.Violations++
				verdicts = append(verdicts, "violated")
			} else {
				res.Satisfied++
				verdicts = append(verdicts, "ok")
			}
		}
	}
	return res, verdicts
}

func checkGroupMap(c *GroupMapCase) (string, *model.Result, []string) {
	res, verdicts := c.expect()
	errText, isNil, panicked := c.run()
	if panicked != nil {
		return fmt.Sprintf("panic: %v", panicked), res, verdicts
	}
	return model.Compare(res, errText, isNil, false), res, verdicts
}

func checkC17Struct(c *StructCase) (string, *model.Result, string) {
	res, errText, isNil, panicked := runStructCase(c)
	if panicked != nil {
		return fmt.Sprintf("panic: %v", panicked), res, ""
	}
	if len(res.Excluded) > 0 {
		return "", res, res.Excluded[0]
	}
	return model.Compare(res, errText, isNil, false), res, ""
}

// c17NT: >= 2 objects of one type whose group verdicts differ, or >= 2 groups in one object.
func c17NT(res *model.Result) (differ bool, multi bool) {
	for _, n := range res.GroupObjs {
		if n >= 2 {
			multi = true
		}
	}
	violatedObjs := map[string]bool{}
	for _, g := range res.Groups {
		violatedObjs[g.Obj] = true
	}
	differ = len(res.GroupObjs) >= 2 && len(violatedObjs) >= 1 && len(violatedObjs) < len(res.GroupObjs)
	return
}

func TestC17(t *testing.T) {
	t.Run("struct", func(t *testing.T) {
		rapid.Check(t, func(t *rapid.T) {
			c := genC17Struct(t)
			if rapid.IntRange(0, 24).Draw(t, "deepGroups") == 0 {
				// a chain of 20-70 objects, each with an either group of its own (Name, PLeaf); some of them - the last one
				// always - have both members empty
				n := rapid.IntRange(20, 70).Draw(t, "chainLen")
				empty := map[int]bool{n - 1: true, rapid.IntRange(0, n-1).Draw(t, "emptyAt"): true, rapid.IntRange(0, n-1).Draw(t, "emptyAt2"): true}
				c = &StructCase{Root: desc.Ptr(desc.Named("Tree")), Val: desc.V{E: []desc.V{deepChain(n, empty)}},
					PerType: map[string]map[string]string{"Tree": {"Left": rapid.SampledFrom([]string{"required", "exist"}).Draw(t, "chainMark"), "Name": "either=7", "PLeaf": "either=7"}}}
				ev.Class("struct:groups-along-a-chain-of-20-70-objects")
			}
			c.pickEntry(rapid.IntRange(0, 7).Draw(t, "entry"))
			msg, res, skipped := checkC17Struct(c)
			if skipped != "" {
				ev.Excluded(skipped)
				return
			}
			differ, multi := c17NT(res)
			if differ {
				ev.Class("objects-with-differing-group-verdicts")
			}
			if multi {
				ev.Class("several-groups-in-one-object")
			}
			ev.Class(fmt.Sprintf("struct:group-clauses=%s", bucket(len(res.Groups))))
			ev.Class(fmt.Sprintf("struct:objects-with-groups=%s", bucket(len(res.GroupObjs))))
			ev.Case(c02Key(c), differ || multi, func() interface{} { return c })
			if msg != "" {
				ev.Fail(t, "C17", "struct", c, "%s", msg)
			}
		})
	})
	t.Run("mapurl", func(t *testing.T) {
		rapid.Check(t, func(t *rapid.T) {
			c := genGroupMapCase(t)
			msg, res, verdicts := checkGroupMap(c)
			differ := false
			if c.Carrier == "listmap" && len(c.Maps) >= 2 {
				seen := map[string]bool{}
				for _, v := range verdicts {
					seen[v] = true
				}
				differ = len(seen) >= 2
			}
			multi := false
			for _, n := range res.GroupObjs {
				if n >= 2 {
					multi = true
				}
			}
			ev.Class("carrier=" + c.Carrier)
			if len(c.Dups) > 0 {
				ev.Class("mapurl:url-parameter-occurs-twice")
			}
			for _, v := range verdicts {
				ev.Class("mapurl:verdict=" + v)
			}
			b, _ := jsonMarshal(c)
			ev.Case(string(b), differ || multi, func() interface{} { return c })
			if msg != "" {
				ev.Fail(t, "C17", "mapurl", c, "%s", msg)
			}
		})
	})
}

func TestC17Replay(t *testing.T) {
	for _, f := range ev.ReplayFiles() {
		rp, err := ev.LoadReplay(f)
		if err != nil {
			t.Fatalf("replay %s: %v", f, err)
		}
		ev.Class("replayed")
		if rp.Sub == "mapurl" {
			var c GroupMapCase
			if err := jsonUnmarshal(rp.Case, &c); err != nil {
				t.Fatalf("replay %s: %v", f, err)
			}
			if msg, _, _ := checkGroupMap(&c); msg != "" {
				ev.Fail(t, "C17", "mapurl", &c, "%s (replay %s)", msg, f)
			}
			continue
		}
		var c StructCase
		if err := jsonUnmarshal(rp.Case, &c); err != nil {
			t.Fatalf("replay %s: %v", f, err)
		}
		if msg, _, _ := checkC17Struct(&c); msg != "" {
			ev.Fail(t, "C17", "struct", &c, "%s (replay %s)", msg, f)
		}
	}
}
