package harness

import (
	"fmt"
	"sort"
	"strings"
	"testing"

	"pgregory.net/rapid"

	"verifharness/desc"
	"verifharness/ev"
	"verifharness/model"
)

// ---- C18: the same rule on the same value gives the same verdict through every entry point ----

// C18Case: one value, one rule list, presented through every carrier able to hold it.
type C18Case struct {
	Base   ScalarCase  `json:"base"`
	Others [][2]string `json:"url_others,omitempty"`
	Pos    int         `json:"url_pos,omitempty"`
	// UrlTwice: the URL carriers hold our parameter twice, with the same value (each occurrence is
	// judged: the URL reports every clause twice, and the first half must agree with the other carriers)
	UrlTwice bool `json:"url_twice,omitempty"`
	OddSeg   bool `json:"odd_segment,omitempty"`
}

func genC18Case(t *rapid.T) *C18Case {
	c := &C18Case{}
	b := &c.Base
	b.RePats = map[string]string{}
	mg := &msgGen{mode: rapid.SampledFrom([]int{1, 2, 3, 0}).Draw(t, "msgs")}
	kind := rapid.SampledFrom([]string{"string", "string", "string", "int", "int8", "int32", "int64", "uint", "uint8", "uint64", "float32", "float64", "bool"}).Draw(t, "kind")
	var theme string
	if kind == "string" {
		theme = rapid.SampledFrom([]string{"phone", "email", "idcard", "ipv4", "ipv6", "ip", "year", "date", "datetime", "int", "float", "json", "plain", "plain", "ints", "unique"}).Draw(t, "theme")
		var s string
		switch theme {
		case "phone":
			s = genPhone(t)
		case "email":
			s = genEmail(t)
		case "idcard":
			s = genIDCard(t)
		case "ipv4", "ip":
			s = genIPv4(t)
		case "ipv6":
			s = genIPv6(t)
		case "year":
			s = genDateLike(t, 1, [3]string{"-", " ", ":"})
		case "date":
			s = genDateLike(t, 3, [3]string{"-", " ", ":"})
		case "datetime":
			s = genDateLike(t, 6, [3]string{"-", " ", ":"})
		case "int":
			s = digits(t, 3, "d")
		case "float":
			s = digits(t, 2, "d") + "." + digits(t, 2, "f")
		case "json":
			s = rapid.SampledFrom([]string{`[1,2]`, `{}`, `12`, `true`, `[1,2`}).Draw(t, "json")
		case "ints", "unique":
			s = rapid.SampledFrom([]string{"1,2,3", "1,2,2", "a,b", "7"}).Draw(t, "list")
		default:
			s = genString(t, "plain", false)
		}
		if rapid.IntRange(0, 2).Draw(t, "perturb") == 0 {
			s = editOnce(t, s)
		}
		if rapid.IntRange(0, 7).Draw(t, "urlMeta") == 0 && s != "" {
			// characters with a meaning in URLs that the encoded URL carrier can still hold
			at := rapid.IntRange(0, len([]rune(s))).Draw(t, "metaAt")
			r := []rune(s)
			s = string(r[:at]) + rapid.SampledFrom([]string{"#", "?", "#?", "/", ":", "@"}).Draw(t, "meta") + string(r[at:])
		}
		b.T, b.Val = desc.Scalar("string"), desc.Str(s)
	} else {
		b.T, b.Val = desc.Scalar(kind), genScalar(t, kind, "v", true) // zero values (incl. -0.0) take the zero-skip path in every carrier
	}
	n := rapid.IntRange(1, 4).Draw(t, "nRules")
	m, hasM := measureOf(kind, b.Val)
	canon := canonOf(kind, b.Val)
	for i := 0; i < n; i++ {
		var pool []string
		if hasM && kind != "bool" {
			pool = append(pool, "size", "size")
		}
		pool = append(pool, "in", "int", "float")
		if kind == "string" {
			pool = append(pool, "theme", "theme", "prefix", "suffix", "include", "re", "phone", "email", "date")
		}
		switch rapid.SampledFrom(pool).Draw(t, "ruleClass") {
		case "size":
			b.Rules = append(b.Rules, genSizeRule(t, m, "sz")+mg.next(t))
		case "in":
			opts := []string{"zz", "7", "q1"}
			if rapid.Bool().Draw(t, "inHit") && safeOpt(canon) {
				opts[1] = canon
			}
			b.Rules = append(b.Rules, "in=("+strings.Join(opts, "/")+")"+mg.next(t))
		case "include":
			b.Rules = append(b.Rules, "include=("+rapid.SampledFrom([]string{"1/a", "zz", "@/.", "测/0"}).Draw(t, "inc")+")"+mg.next(t))
		case "theme":
			th := theme
			if th == "plain" || th == "" {
				th = "unique"
			}
			b.Rules = append(b.Rules, th+mg.next(t))
		case "prefix", "suffix":
			b.Rules = append(b.Rules, rapid.SampledFrom([]string{"prefix=1", "suffix=a", "prefix=a", "suffix=0"}).Draw(t, "affix")+mg.next(t))
		case "re":
			p := rapid.SampledFrom(rePatterns).Draw(t, "pattern")
			item := "re='" + p.pat + "'" + mg.next(t)
			b.RePats[item] = p.pat
			b.Rules = append(b.Rules, item)
		default:
			if rapid.IntRange(0, 5).Draw(t, "blankArg") == 0 {
				// arguments (and names) with leading / trailing blanks are taken literally by every entry point
				b.Rules = append(b.Rules, rapid.SampledFrom([]string{"ints= ", "suffix=0 ", "prefix= 1", "date= ", " le=2", "ge=1 ", "in=( a/b )", "include=(a /b)"}).Draw(t, "blankRule"))
				break
			}
			b.Rules = append(b.Rules, rapid.SampledFrom([]string{"int", "float", "phone", "email", "date", "ipv4", "json"}).Draw(t, "fmtRule")+mg.next(t))
		}
	}
	if rapid.IntRange(0, 3).Draw(t, "withRequired") == 0 {
		b.Rules = append([]string{"required"}, b.Rules...)
	}
	k := rapid.IntRange(0, 4).Draw(t, "urlOthers")
	for i := 0; i < k; i++ {
		c.Others = append(c.Others, [2]string{fmt.Sprintf("p%d", i), rapid.SampledFrom([]string{"", "1", "abc", "测试"}).Draw(t, "other")})
	}
	c.Pos = rapid.IntRange(0, k).Draw(t, "urlPos")
	if rapid.IntRange(0, 3).Draw(t, "oddSegment") == 2 {
		// an empty / bare / name-less query segment in front of our parameter
		c.Others = append([][2]string{rapid.SampledFrom(oddSegments).Draw(t, "segment")}, c.Others...)
		c.Pos++
		c.OddSeg = true
	}
	c.UrlTwice = rapid.IntRange(0, 5).Draw(t, "urlTwice") == 3
	finishScalar(t, b)
	if rapid.IntRange(0, 7).Draw(t, "callFn") == 0 {
		// a function given for the call under a name the validators implement themselves (or a built-in's name):
		// every entry point must resolve the name to it
		name := rapid.SampledFrom([]string{"required", "required", "phone", "cfn1"}).Draw(t, "callFnName")
		has := false
		for _, r := range b.Rules {
			if k, _, _ := model.ParseItem(r); k == name {
				has = true
			}
		}
		if !has {
			b.Rules = append(b.Rules, name)
		}
		b.CallFns = []string{name}
	}
	if rapid.IntRange(0, 3).Draw(t, "nest") == 0 {
		b.Nest = rapid.SampledFrom([]int{1, 2, 5, 9, 10, 11, 12, 20, 33, 40}).Draw(t, "nestDepth") // tag carrier: the field's struct lies this deep
	}
	if rapid.IntRange(0, 3).Draw(t, "decoy") == 0 {
		// (tag carrier only) an earlier call on the same struct type with another per-call rule
		b.Decoy = rapid.SampledFrom([]string{"required", "to=1~3|decoy", "ge=2", "phone|诱饵"}).Draw(t, "decoyRule")
	}
	return c
}

// normalise strips what may legitimately differ between carriers (the path
// prefix; field-error clauses are bare for anonymous / map / URL carriers).
func normalise(errText string, isNil bool) []string {
	if isNil {
		return nil
	}
	cl, _ := model.ParseErr(errText)
	var out []string
	for _, a := range cl {
		switch a.Kind {
		case "value":
			out = append(out, "value|"+a.Label+"|"+a.Text)
		default:
			out = append(out, "err|"+a.Text)
		}
	}
	sort.Strings(out)
	return out
}

func checkC18(c *C18Case) (msg string, skipped string, nviol, ncarriers int) {
	type obs struct {
		carrier string
		norm    []string
	}
	var seen []obs
	for _, car := range Carriers {
		sc := c.Base
		sc.Carrier = car
		twice := false
		if car == "url" || car == "urlenc" {
			sc.Others, sc.Pos = c.Others, c.Pos
			if c.UrlTwice && sc.T.K == "string" && sc.T.Name == "" {
				sc.Again, twice = []string{sc.Val.S}, true
				if sc.Val.SB != nil {
					sc.Again = []string{string(sc.Val.SB)}
				}
			}
		}
		if !sc.carrierOK() {
			continue
		}
		if x := c05Excluded(&sc); x != "" {
			return "", x, 0, 0
		}
		res := sc.expect()
		errText, isNil, panicked := sc.run()
		if panicked != nil {
			return fmt.Sprintf("carrier %s: panic: %v", car, panicked), "", 0, 0
		}
		nviol = res.Violations
		if car == "listmap" || twice {
			nviol /= 2
		}
		ncarriers++
		known := false
		if len(res.Excluded) == 0 {
			if m := model.Compare(res, errText, isNil, true); m != "" {
				if sc.ifaceKnown() {
					known = true
				} else {
					return fmt.Sprintf("carrier %s disagrees with the rule oracles: %s", car, m), "", nviol, ncarriers
				}
			}
		} else {
			skipped = "oracle-undefined:" + strings.SplitN(res.Excluded[0], ":", 2)[0]
		}
		if known {
			continue
		}
		norm := normalise(errText, isNil)
		if car == "listmap" { // the list holds the map twice
			var half []string
			for i := 0; i < len(norm); i += 2 {
				half = append(half, norm[i])
			}
			norm = half
		}
		if twice { // the query holds the parameter twice: every clause is reported twice (norm is sorted)
			var half []string
			for i := 0; i < len(norm); i += 2 {
				if i+1 >= len(norm) || norm[i] != norm[i+1] {
					return fmt.Sprintf("carrier %s: the two occurrences of the parameter are judged differently: %q", car, norm), "", nviol, ncarriers
				}
				half = append(half, norm[i])
			}
			norm = half
		}
		if car == "mapiface" && len(seen) > 0 && strings.Join(norm, "\n") != strings.Join(seen[0].norm, "\n") && sc.ifaceKnown() {
			continue
		}
		seen = append(seen, obs{car, norm})
	}
	for _, o := range seen[1:] {
		if strings.Join(o.norm, "\n") != strings.Join(seen[0].norm, "\n") {
			return fmt.Sprintf("carriers disagree: %s reports %q, %s reports %q", seen[0].carrier, seen[0].norm, o.carrier, o.norm), "", nviol, ncarriers
		}
	}
	return "", skipped, nviol, ncarriers
}

// propC18 is the property; TestC18 drives it with rapid's random generator, FuzzC18Rapid with the coverage-guided
// native fuzzer (thorough tier).
func propC18(t *rapid.T) {
	c := genC18Case(t)
	msg, skipped, nviol, ncar := checkC18(c)
	if skipped != "" && ncar == 0 {
		ev.Excluded(skipped)
		return
	}
	if skipped != "" {
		ev.Class("agreement-only:" + skipped)
	}
	ev.Class("kind=" + c.Base.T.K)
	ev.Class(fmt.Sprintf("carriers=%d", ncar))
	if c.Base.Plus && strings.Contains(c.Base.Val.S, " ") {
		ev.Class("url-blank-written-as-plus")
	}
	if c.UrlTwice {
		ev.Class("url-parameter-occurs-twice")
	}
	if c.OddSeg {
		ev.Class("url-odd-segment-before-our-parameter")
	}
	ev.Class(fmt.Sprintf("violated=%s", bucket(nviol)))
	b, _ := jsonMarshal(c)
	ev.Case(string(b), len(c.Base.Rules) >= 2 && nviol >= 1, func() interface{} { return c })
	if msg != "" {
		ev.Fail(t, "C18", "carriers", c, "%s", msg)
	}
}

func TestC18(t *testing.T) {
	cleanup := setupFS()
	defer cleanup()
	rapid.Check(t, propC18)
}

func FuzzC18Rapid(f *testing.F) {
	cleanup := setupFS()
	defer cleanup()
	f.Fuzz(rapid.MakeFuzz(propC18))
}

func TestC18Replay(t *testing.T) {
	cleanup := setupFS()
	defer cleanup()
	for _, f := range ev.ReplayFiles() {
		rp, err := ev.LoadReplay(f)
		if err != nil {
			t.Fatalf("replay %s: %v", f, err)
		}
		ev.Class("replayed")
		var c C18Case
		if rp.Sub == "witness" { // a single-carrier witness in ScalarCase form
			if err := jsonUnmarshal(rp.Case, &c.Base); err != nil {
				t.Fatalf("replay %s: %v", f, err)
			}
		} else if err := jsonUnmarshal(rp.Case, &c); err != nil {
			t.Fatalf("replay %s: %v", f, err)
		}
		if msg, _, _, _ := checkC18(&c); msg != "" {
			ev.Fail(t, "C18", "replay", &c, "%s (replay %s)", msg, f)
		}
	}
}
