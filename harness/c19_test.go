package harness

import (
	"fmt"
	"go/parser"
	"go/token"
	"os"
	"path/filepath"
	"sort"
	"strings"
	"testing"

	"gitee.com/xuesongtao/protoc-go-valid/file"
	"pgregory.net/rapid"

	"verifharness/ev"
)

// ---- C19: the injector never damages what it cannot process ----

// DirEntry is one entry of a generated directory.
type DirEntry struct {
	Name  string   `json:"name"`
	Kind  string   `json:"kind"` // annotated | plain | unexpected | broken | nongo | nongo-valid | subdir
	Src   *SrcFile `json:"src,omitempty"`
	Text  string   `json:"text,omitempty"`
	TextB []byte   `json:"textb,omitempty"`
	// Dangling: the entry is a symbolic link to a path that does not exist
	Dangling bool `json:"dangling,omitempty"`
	// Perm: a permission fault, effective only when the tool runs without root's exemption (DirCase.Unpriv):
	// "readonly" = 0444 (parses, cannot be written back), "unreadable" = 0000
	Perm string `json:"perm,omitempty"`
}

// DirCase: a directory and the way the tool is run on it.
type DirCase struct {
	Entries []DirEntry `json:"entries"`
	Mode    string     `json:"mode"`              // cli-d | cli-p | cli-f-each | lib-each
	Pattern string     `json:"pattern,omitempty"` // cli-p: glob relative to the directory ("" = *.go)
	// Unpriv: the CLI runs as an unprivileged user that owns the directory (permission faults become real)
	Unpriv bool `json:"unpriv,omitempty"`
	// Sub: name of the directory (below the scratch directory) handed to the tool
	Sub string `json:"sub,omitempty"`
	// Via: how the CLI is told where the files are (see injectVia)
	Via string `json:"via,omitempty"`
}

func (e *DirEntry) content() (string, []Span) {
	if e.Src != nil {
		return e.Src.Render()
	}
	if e.TextB != nil {
		return string(e.TextB), nil
	}
	return e.Text, nil
}

var unexpectedFiles = []string{
	"package pb\n\ntype M struct {\n\tA string // @tag valid:\"required\"\n\tB int32 `json:\"b\"` // @tag valid:\"to=1~3\"\n}\n",
	"package pb\n\ntype (\n\tA struct {\n\t\tX int `json:\"x\"` // @tag valid:\"a\"\n\t}\n\tB struct {\n\t\tY int `json:\"y\"` // @tag valid:\"b\"\n\t}\n)\n",
	"package pb\n\nfunc f() {\n\ttype local struct {\n\t\tA int `json:\"a\"` // @tag valid:\"x\"\n\t}\n\t_ = local{}\n}\n",
	"package pb\n\n// @tag valid:\"free comment\"\ntype E struct{}\n\ntype F struct {\n}\n",
	"package pb\n\ntype G[T any] struct {\n\tV T // @tag valid:\"required\"\n\tW []T `json:\"w\"` // @tag valid:\"required\"\n}\n",
	"package pb\n\ntype H struct {\n\tOther // @tag valid:\"embedded-without-tag\"\n\t*Ptr // @tag json:\"p\"\n}\n",
	"package pb\n\ntype I interface {\n\tM() // @tag valid:\"method\"\n}\n\ntype J = struct {\n\tA int // @tag valid:\"alias\"\n}\n",
	"package pb\n\ntype K struct {\n\tA, B, C int // @tag valid:\"multi\" json:\"abc\"\n\tD func() // @tag\n\tE chan int // @tag \n}\n",
	"package pb\n",
	"package pb\n\ntype N struct {\n\tName string //nolint:lll @tag valid:\"required\"\n\tAge int //export Age @tag valid:\"to=1~3\"\n\tOk bool `json:\"ok\"` //nolint:lll // @tag valid:\"x\"\n}\n",
	"package pb\n\ntype L struct {\n\tA int `json:\"a\"` /* @tag valid:\"x\" */ // second comment @tag valid:\"y\"\n}\n",
}

func breakSource(t *rapid.T, s string) string {
	switch rapid.IntRange(0, 5).Draw(t, "breakHow") {
	case 5:
		// bytes that are no valid UTF-8 (text in GBK) in a comment: go/parser rejects the file for that alone
		return strings.Replace(s, "\n", " // \xd6\xd0\xce\xc4\n", 1) + "// \xff\n"
	case 0:
		return s[:rapid.IntRange(0, len(s)-1).Draw(t, "truncAt")]
	case 1:
		at := rapid.IntRange(0, len(s)-1).Draw(t, "mutAt")
		return s[:at] + rapid.SampledFrom([]string{"{", "}", "`", "\"", "(", "\x00", "type", "/*"}).Draw(t, "mutWith") + s[at+1:]
	case 2:
		return strings.Replace(s, "package", "pakage", 1)
	case 3:
		return strings.Replace(s, "struct {", "struct {{", 1) + "\n}"
	}
	return "this is not go @tag valid:\"x\"\n" + s
}

func isValidGo(src string) bool {
	_, err := parser.ParseFile(token.NewFileSet(), "x.go", src, parser.ParseComments)
	return err == nil
}

func genDirCase(t *rapid.T) *DirCase {
	c := &DirCase{}
	n := rapid.IntRange(1, ev.Pick(10, 12)).Draw(t, "nEntries")
	used := map[string]bool{}
	for i := 0; i < n; i++ {
		kind := rapid.SampledFrom([]string{"annotated", "annotated", "annotated", "plain", "unexpected", "unexpected", "broken", "broken", "nongo", "subdir", "nongo-valid", "dotfile", "symlink", "dangling"}).Draw(t, "entryKind")
		prefix := rapid.SampledFrom([]string{"a", "m", "z", "0", "B"}).Draw(t, "sortPrefix") // bad files sort before, between and after good ones
		name := fmt.Sprintf("%s%d_%s", prefix, i, kind)
		e := DirEntry{Kind: kind}
		switch kind {
		case "annotated":
			e.Name = name + ".pb.go"
			e.Src = genSrcFile(t, e.Name, 1)
		case "plain":
			e.Name = name + ".go"
			f := genSrcFile(t, e.Name, 0)
			for di := range f.Decls {
				for fi := range f.Decls[di].Fields {
					fl := &f.Decls[di].Fields[fi]
					fl.AtTag, fl.Inject, fl.InjTail = false, nil, ""
				}
			}
			e.Src = f
		case "unexpected":
			e.Name = name + ".go"
			e.Text = rapid.SampledFrom(unexpectedFiles).Draw(t, "unexpected")
		case "broken":
			e.Name = name + ".go"
			base, _ := genSrcFile(t, e.Name, 1).Render()
			txt := breakSource(t, base)
			if strings.ToValidUTF8(txt, "") == txt {
				e.Text = txt
			} else {
				e.TextB = []byte(txt)
			}
		case "nongo":
			e.Name = name + rapid.SampledFrom([]string{".txt", ".proto", ".go.bak", ".gox", "", ".GO"}).Draw(t, "ext")
			e.Text = "message Man {\n  string name = 1; // 姓名 @tag valid:\"required,to=1~3\"\n}\ntype X struct {\n\tA int `json:\"a\"` // @tag valid:\"x\"\n}\n"
		case "symlink":
			// a .go entry that is a symbolic link to an annotated file kept elsewhere: processed through the link
			e.Name = name + ".pb.go"
			e.Src = genSrcFile(t, e.Name, 1)
		case "dangling":
			// a symbolic link whose target does not exist (os.Stat fails although the directory lists it)
			e.Kind = "nongo"
			e.Name = name + rapid.SampledFrom([]string{".pb.go", ".link", ".go"}).Draw(t, "danglingExt")
			e.Dangling = true
		case "dotfile":
			// hidden regular files (they sort before everything else) and hidden Go files
			e.Kind = "nongo"
			e.Name = rapid.SampledFrom([]string{".gitkeep", ".DS_Store", ".gitignore", ".#lock", "._x.pb.go.swp"}).Draw(t, "dotName")
			e.Text = "*.tmp\n"
		case "nongo-valid":
			// a perfectly valid annotated Go source under a name that does not end in .go
			e.Name = name + rapid.SampledFrom([]string{".pb.go.bak", ".pb.tmpl", ".pb.go~", ".go.orig", "", ".pb.GO"}).Draw(t, "ext")
			e.Src = genSrcFile(t, "x.pb.go", 1)
		case "subdir":
			e.Name = name + rapid.SampledFrom([]string{"", ".go"}).Draw(t, "dirExt")
			e.Src = genSrcFile(t, "inner.pb.go", 1)
		}
		if used[e.Name] {
			continue
		}
		used[e.Name] = true
		c.Entries = append(c.Entries, e)
		// a sibling whose name derives from a Go file's name (editor backups, temp files of other tools)
		if strings.HasSuffix(e.Name, ".go") && e.Kind != "subdir" && rapid.IntRange(0, 3).Draw(t, "sibling") == 0 {
			sib := DirEntry{Kind: "nongo", Name: e.Name + rapid.SampledFrom([]string{".tmp", ".bak", "~", ".swp", ".orig", ".new", ".lock"}).Draw(t, "sibExt"),
				Text: "precious bytes of another tool\n// @tag valid:\"x\"\n"}
			if !used[sib.Name] {
				used[sib.Name] = true
				c.Entries = append(c.Entries, sib)
			}
		}
	}
	if rapid.IntRange(0, 11).Draw(t, "manyBad") == 7 {
		// many files that fail in one run (whatever the tool collects about failures is bounded somewhere)
		for i, nb := 0, rapid.SampledFrom([]int{9, 16, 17, 33, 70}).Draw(t, "nBad"); i < nb; i++ {
			name := fmt.Sprintf("%s%02d_bad.go", []string{"a", "m", "z"}[i%3], i)
			if !used[name] {
				used[name] = true
				c.Entries = append(c.Entries, DirEntry{Kind: "broken", Name: name, Text: "package pb\n\ntype T" + fmt.Sprint(i) + " struct {\n\tA int `json:\"a\"` // @tag valid:\"x\"\n"})
			}
		}
	}
	modes := []string{"lib-each"}
	if haveCLI() {
		modes = []string{"cli-d", "cli-d", "cli-p", "cli-f-each", "lib-each"}
	}
	c.Mode = rapid.SampledFrom(modes).Draw(t, "mode")
	if strings.HasPrefix(c.Mode, "cli-") && rapid.IntRange(0, 2).Draw(t, "unpriv") == 0 {
		c.Unpriv = true
		for i := range c.Entries {
			e := &c.Entries[i]
			if e.Kind != "subdir" && rapid.IntRange(0, 2).Draw(t, "permFault") == 0 {
				e.Perm = rapid.SampledFrom([]string{"readonly", "readonly", "unreadable"}).Draw(t, "perm")
			}
		}
	}
	c.Sub = genDirName(t, c.Mode == "cli-p")
	if strings.HasPrefix(c.Mode, "cli-") {
		c.Via = rapid.SampledFrom(injectVias).Draw(t, "via")
	}
	if c.Mode == "cli-p" {
		c.Pattern = rapid.SampledFrom([]string{"", "", "*", "*.pb.*", "[a-m]*", "*_annotated*", "*.go*", "?*_*"}).Draw(t, "pattern")
	}
	return c
}

// checkDir writes the directory, runs the tool, and checks every entry.
func checkDir(c *DirCase) (msg string, badBeforeGood bool) {
	top := newWorkDirFor(c.Unpriv && strings.HasPrefix(c.Mode, "cli-"))
	defer os.RemoveAll(top)
	dir, err := workSub(top, c.Sub)
	if err != nil {
		return "harness: " + err.Error(), false
	}
	if c.Sub != "" {
		_ = os.Chmod(top, 0o755) // (an unprivileged run must be able to reach the directory)
	}
	type orig struct {
		path  string
		text  string
		spans []Span
		e     *DirEntry
	}
	var files []orig
	names := make([]string, 0, len(c.Entries))
	for i := range c.Entries {
		e := &c.Entries[i]
		txt, spans := e.content()
		p := filepath.Join(dir, e.Name)
		if e.Kind == "subdir" {
			_ = os.Mkdir(p, 0o755)
			p = filepath.Join(p, "inner.pb.go")
		}
		if e.Dangling {
			if err := os.Symlink(filepath.Join(dir, "no-such-target-"+e.Name), p); err != nil {
				return "harness: " + err.Error(), false
			}
			files = append(files, orig{p, txt, spans, e})
			names = append(names, e.Name)
			continue
		}
		if e.Kind == "symlink" {
			real := filepath.Join(dir, "zz_realfiles.d")
			_ = os.Mkdir(real, 0o755)
			target := filepath.Join(real, e.Name+".real")
			if err := os.WriteFile(target, []byte(txt), 0o644); err != nil {
				return "harness: " + err.Error(), false
			}
			if err := os.Symlink(target, p); err != nil {
				return "harness: " + err.Error(), false
			}
		} else if err := os.WriteFile(p, []byte(txt), 0o644); err != nil {
			return "harness: " + err.Error(), false
		}
		files = append(files, orig{p, txt, spans, e})
		names = append(names, e.Name)
	}
	injectVia = c.Via
	defer func() { injectVia = "" }()
	unpriv := c.Unpriv && strings.HasPrefix(c.Mode, "cli-") && unprivHow() != ""
	if unpriv {
		if unprivHow() == "setuid" { // hand the whole directory to the unprivileged user
			_ = filepath.Walk(dir, func(p string, _ os.FileInfo, _ error) error { return os.Lchown(p, nobodyID, nobodyID) })
		}
		for _, f := range files {
			switch f.e.Perm {
			case "readonly":
				_ = os.Chmod(f.path, 0o444)
			case "unreadable":
				_ = os.Chmod(f.path, 0)
			}
		}
		defer func() {
			for _, f := range files {
				_ = os.Chmod(f.path, 0o644)
			}
		}()
	}
	sort.Strings(names)
	// is there an unprocessable entry sorting before an annotated file?
	firstBad := ""
	for _, n := range names {
		for i := range c.Entries {
			e := &c.Entries[i]
			if e.Name != n {
				continue
			}
			txt, _ := e.content()
			bad := (unpriv && e.Perm != "") || e.Kind == "broken" || e.Kind == "nongo" || e.Kind == "nongo-valid" || e.Kind == "subdir" || e.Kind == "unexpected" || !isValidGo(txt)
			if bad && firstBad == "" {
				firstBad = n
			}
			if e.Kind == "annotated" && firstBad != "" {
				badBeforeGood = true
			}
		}
	}
	// An orderly non-zero exit status is no crash: when the run met an unprocessable entry it is
	// tolerated, and what happened to every file decides.
	tolerated := func(err error) bool {
		if _, ok := err.(*exitError); ok && firstBad != "" {
			ev.Class("non-zero exit status with an unprocessable entry (tolerated; files decide)")
			return true
		}
		return false
	}
	switch c.Mode {
	case "cli-d":
		if _, err := runInjectorAs(unpriv, "cli-d", dir, ""); err != nil && !tolerated(err) {
			return err.Error(), badBeforeGood
		}
	case "cli-p":
		mode, pat := "cli-p", ""
		if c.Pattern != "" {
			mode, pat = "cli-p-glob", c.Pattern
		}
		if _, err := runInjectorAs(unpriv, mode, dir, pat); err != nil && !tolerated(err) {
			return err.Error(), badBeforeGood
		}
	default:
		for _, f := range files {
			if f.e.Kind == "subdir" {
				continue
			}
			mode := "lib"
			if c.Mode == "cli-f-each" {
				mode = "cli-f"
			} else if !strings.HasSuffix(f.path, ".go") {
				continue // the library entry points are only ever called for .go files
			}
			if _, err := runInjectorAs(unpriv, mode, dir, f.path); err != nil && !tolerated(err) {
				return fmt.Sprintf("%s: %v", f.e.Name, err), badBeforeGood
			}
		}
	}
	for _, f := range files {
		if f.e.Dangling {
			if _, err := os.Lstat(f.path); err != nil {
				return fmt.Sprintf("the dangling link %s is gone after the run: %v", f.e.Name, err), badBeforeGood
			}
			continue
		}
		if unpriv && f.e.Perm != "" {
			_ = os.Chmod(f.path, 0o644)
		}
		b, err := os.ReadFile(f.path)
		if err != nil {
			return fmt.Sprintf("entry %s is gone after the run: %v", f.e.Name, err), badBeforeGood
		}
		out := string(b)
		switch {
		case f.e.Kind == "subdir":
			if out != f.text {
				return fmt.Sprintf("a file inside sub-directory %s was modified", f.e.Name), badBeforeGood
			}
		case !strings.HasSuffix(f.e.Name, ".go"):
			if out != f.text {
				return fmt.Sprintf("non-.go file %s was modified: %s", f.e.Name, firstDiff(f.text, out)), badBeforeGood
			}
		case c.Mode == "cli-p" && c.Pattern != "" && !globMatch(c.Pattern, f.e.Name):
			if out != f.text {
				return fmt.Sprintf("file %s does not match the pattern %q but was modified: %s", f.e.Name, c.Pattern, firstDiff(f.text, out)), badBeforeGood
			}
		case unpriv && f.e.Perm != "":
			// the tool can read but not write it, or not even read it: nothing can have been processed
			ev.Class("perm-fault=" + f.e.Perm)
			if out != f.text {
				return fmt.Sprintf("file %s (%s for the invoking user) was modified: %s", f.e.Name, f.e.Perm, firstDiff(f.text, out)), badBeforeGood
			}
		case !isValidGo(f.text):
			if out != f.text {
				return fmt.Sprintf("file %s does not parse but was modified: %s", f.e.Name, firstDiff(f.text, out)), badBeforeGood
			}
		case f.e.Kind == "broken":
			// a byte mutation that left the file parseable (it hit a comment or a string): the
			// file may now lie outside the property's domain (e.g. a back quote inside an
			// injected value, which no raw-string tag literal can hold), so only
			// "the tool did not crash and the entry still exists" is asserted for it
			ev.Class("mutated-file-still-parses (crash-freedom only)")
		case f.e.Src != nil:
			if m := verifyInjected(f.text, f.spans, out); m != "" {
				return fmt.Sprintf("valid file %s (after unprocessable neighbours): %s", f.e.Name, m), badBeforeGood
			}
		default:
			// valid but unexpected shapes: must still parse to the same declarations
			if m := sameDeclarations(f.text, out); m != "" {
				return fmt.Sprintf("file %s: %s", f.e.Name, m), badBeforeGood
			}
		}
	}
	return "", badBeforeGood
}

func globMatch(pattern, name string) bool {
	ok, err := filepath.Match(pattern, name)
	return err == nil && ok
}

func TestC19(t *testing.T) {
	rapid.Check(t, func(t *rapid.T) {
		c := genDirCase(t)
		msg, nt := checkDir(c)
		ev.Class("mode=" + c.Mode)
		if c.Sub != "" {
			ev.Class("directory-name=" + c.Sub)
		}
		if c.Via != "" {
			ev.Class("path-given-as=" + c.Via)
		}
		if c.Unpriv {
			ev.Class("unprivileged-run:" + unprivHow())
		}
		if c.Pattern != "" {
			ev.Class("glob=" + c.Pattern)
		}
		for _, e := range c.Entries {
			ev.Class("entry=" + e.Kind)
		}
		if nt {
			ev.Class("unprocessable-entry-sorts-before-annotated-file")
		}
		b, _ := jsonMarshal(c)
		ev.Case(string(b), nt, func() interface{} { return c })
		if msg != "" {
			ev.Fail(t, "C19", "dir", c, "%s", msg)
		}
	})
}

// checkBytesAsGo: arbitrary bytes as a .go file through ParseFile / WriteFile.
func checkBytesAsGo(data []byte) string {
	dir := newWorkDir()
	defer os.RemoveAll(dir)
	p := filepath.Join(dir, "f.go")
	if err := os.WriteFile(p, data, 0o644); err != nil {
		return "harness: " + err.Error()
	}
	var perr error
	if pn := ev.Guard(func() {
		areas, err := file.ParseFile(p)
		perr = err
		if err == nil {
			_ = file.WriteFile(p, areas)
		}
	}); pn != nil {
		return fmt.Sprintf("panic: %v", pn)
	}
	out, _ := os.ReadFile(p)
	if !isValidGo(string(data)) {
		if perr == nil {
			return "ParseFile accepted a file go/parser rejects"
		}
		if string(out) != string(data) {
			return "a file that does not parse was modified"
		}
		return ""
	}
	// a back quote in the text after an @tag marker may end up inside a raw-string tag literal, which cannot
	// hold it (outside the domain of the injector, see C06): such inputs assert crash-freedom only
	for _, line := range strings.Split(string(data), "\n") {
		if i := strings.Index(line, "@tag"); i >= 0 && strings.Contains(line[i:], "`") {
			ev.Class("bytes: back quote after an @tag marker (crash-freedom only)")
			return ""
		}
	}
	if m := sameDeclarations(string(data), string(out)); m != "" {
		return m
	}
	return ""
}

func TestC19Replay(t *testing.T) {
	for _, f := range ev.ReplayFiles() {
		rp, err := ev.LoadReplay(f)
		if err != nil {
			t.Fatalf("replay %s: %v", f, err)
		}
		ev.Class("replayed")
		if rp.Sub == "bytes" {
			var bc struct {
				Data []byte `json:"data"`
			}
			if err := jsonUnmarshal(rp.Case, &bc); err != nil {
				t.Fatalf("replay %s: %v", f, err)
			}
			if msg := checkBytesAsGo(bc.Data); msg != "" {
				ev.Fail(t, "C19", "bytes", bc, "%s (replay %s)", msg, f)
			}
			continue
		}
		var c DirCase
		if err := jsonUnmarshal(rp.Case, &c); err != nil {
			t.Fatalf("replay %s: %v", f, err)
		}
		if !haveCLI() {
			c.Mode = "lib-each"
		}
		if msg, _ := checkDir(&c); msg != "" {
			ev.Fail(t, "C19", "dir", &c, "%s (replay %s)", msg, f)
		}
	}
}

// FuzzC19: arbitrary bytes as a .go file.
func FuzzC19(f *testing.F) {
	for _, s := range unexpectedFiles {
		f.Add([]byte(s))
	}
	f.Add([]byte("package p\ntype T struct {\n\tA int `json:\"a\"` // @tag valid:\"x$1\"\n}\n"))
	f.Add([]byte("package p\ntype T struct {\n\tA int ``// @tag a:\"b\"\n}\n"))
	f.Add([]byte("package p\ntype T struct {\n\tA struct{ B int `x:\"y\"` } `z:\"w\"` // @tag z:\"q\"\n}\n"))
	f.Fuzz(func(t *testing.T, data []byte) {
		if msg := checkBytesAsGo(data); msg != "" {
			t.Fatal(msg)
		}
	})
}

// FuzzC06: bytes drive the choices of the file model (structured fuzzing).
func FuzzC06(f *testing.F) {
	f.Add([]byte{1, 2, 3, 4, 5, 6, 7, 8, 9, 10, 11, 12})
	f.Fuzz(rapid.MakeFuzz(func(t *rapid.T) {
		c := &InjectCase{File: *genSrcFile(t, "f.pb.go", 1), Mode: "lib"}
		if msg := checkInject(c); msg != "" {
			t.Fatalf("%s", msg)
		}
	}))
}
