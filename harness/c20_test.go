package harness

import (
	"bytes"
	"encoding/json"
	"fmt"
	"math"
	"reflect"
	"strconv"
	"strings"
	"sync"
	"testing"
	"time"

	"gitee.com/xuesongtao/protoc-go-valid/valid"
	"pgregory.net/rapid"

	"verifharness/desc"
	"verifharness/ev"
	"verifharness/lib"
)

// ---- C20: the struct dumper emits well-formed JSON matching the standard encoder ----

// DumpCase: a value of a synthesised type (top level: struct or pointer to struct).
type DumpCase struct {
	T desc.T `json:"t"`
	V desc.V `json:"v"`
	// PreValid: the value is validated with this tag name before it is dumped ("-" = not at all; "" is
	// the explicitly empty tag name): what the validators keep about a type is no business of the dumper
	PreValid string `json:"prevalid,omitempty"`
}

type dumpFacts struct {
	emptyStruct, boolean, strKeyMap, multiEntryMap, noExported, nilPtrInCollection, firstUnexported, namedKey, bulk bool
	depth                                                                                                           int
}

// (none of these contains a character that JSON must escape: no '"', no '\\', nothing below U+0020)
var dumpStrings = []string{"", "a", "abc", "测试", "x y", "a/b", "é😀", "key:1", "[1,2]", "{}", "null", "true", "1e3",
	"※‹›‼", "\u2038\u203f", "\u2027\u2040", "\x7f", "a\x7fb", "\U000E0001", "tag\U000E0041", "\U000F0000", "\u2028", "\ufeff", "\u00a0", "\u200b", "ｆｕｌｌ", "<>&", "'", "%s%d", strings.Repeat("长", 300),
	strings.Repeat("a", 61), strings.Repeat("a", 62), strings.Repeat("a", 63), strings.Repeat("a", 64), strings.Repeat("a", 65), strings.Repeat("é", 31) + "a", strings.Repeat("b", 127), strings.Repeat("b", 128),
	strings.Repeat("c", 255), strings.Repeat("c", 256), strings.Repeat("c", 257), strings.Repeat("d", 1023), strings.Repeat("d", 1024), strings.Repeat("d", 4097)}
var dumpFloats = []float64{9223372036854775808, -9223372036854775808, 4294967296, 9007199254740993, 0, 1, -1, 0.5, 1.5, 0.1, 1e-9, -1e-9, 123456.789, 1e15, -1e15, 3.141592653589793, 1e6, 255.255, 0.30000000000000004}

func genDumpScalar(t *rapid.T, facts *dumpFacts) (desc.T, desc.V) {
	ty, v := genDumpScalar0(t, facts)
	return maybeNamed(t, ty), v
}

func genDumpScalar0(t *rapid.T, facts *dumpFacts) (desc.T, desc.V) {
	k := rapid.SampledFrom([]string{"string", "string", "bool", "int", "int8", "int16", "int32", "int64", "uint", "uint8", "uint16", "uint32", "uint64", "float32", "float64"}).Draw(t, "kind")
	switch {
	case k == "string":
		return desc.Scalar(k), desc.Str(rapid.SampledFrom(dumpStrings).Draw(t, "s"))
	case k == "bool":
		facts.boolean = true
		return desc.Scalar(k), desc.V{B: rapid.Bool().Draw(t, "b")}
	case strings.HasPrefix(k, "int"):
		v := rapid.SampledFrom([]int64{0, 1, -1, 7, 127, -128, 32767, 1 << 31, -(1 << 31), math.MaxInt64, math.MinInt64, 1 << 53}).Draw(t, "i")
		return desc.Scalar(k), desc.V{I: clampInt(k, v)}
	case strings.HasPrefix(k, "uint"):
		v := rapid.SampledFrom([]uint64{0, 1, 255, 65535, 1 << 32, math.MaxUint64, 1<<53 + 1}).Draw(t, "u")
		return desc.Scalar(k), desc.V{U: clampUint(k, v)}
	default:
		f := rapid.SampledFrom(dumpFloats).Draw(t, "f")
		if k == "float32" {
			f = float64(float32(f))
		}
		return desc.Scalar(k), desc.V{F: f}
	}
}

// genDumpType draws a type in the property's domain together with a value.
func genDumpType(t *rapid.T, depth, maxDepth int, facts *dumpFacts, inCollection bool) (desc.T, desc.V) {
	if depth > facts.depth {
		facts.depth = depth
	}
	kinds := []string{"scalar", "scalar", "scalar", "struct", "ptr", "slice", "array", "map"}
	if depth >= maxDepth {
		kinds = kinds[:3]
	}
	if rapid.IntRange(0, 29).Draw(t, "libTime") == 17 {
		// a struct type of another package that is NAMED Time (not time.Time): a struct like any other
		v := desc.V{E: []desc.V{{I: int64(rapid.IntRange(0, 23).Draw(t, "hour"))}, {I: int64(rapid.IntRange(0, 59).Draw(t, "min"))}}}
		if rapid.Bool().Draw(t, "libTimePtr") {
			return desc.Ptr(desc.Named("Time")), desc.V{E: []desc.V{v}}
		}
		return desc.Named("Time"), v
	}
	switch rapid.SampledFrom(kinds).Draw(t, "shape") {
	case "struct":
		return genDumpStruct(t, depth, maxDepth, facts)
	case "ptr":
		st, sv := genDumpStruct(t, depth, maxDepth, facts)
		if rapid.IntRange(0, 3).Draw(t, "nilPtr") == 0 {
			if inCollection {
				facts.nilPtrInCollection = true
			}
			return desc.Ptr(st), desc.V{Nil: true}
		}
		return desc.Ptr(st), desc.V{E: []desc.V{sv}}
	case "slice", "array":
		et, _ := genDumpType(t, depth+1, maxDepth, facts, true)
		if et.K == "uint8" { // []byte / [N]byte: the standard encoder base64-encodes them (outside the property)
			et = desc.Scalar("uint16")
		}
		n := rapid.IntRange(-1, 3).Draw(t, "len")
		v := desc.V{Nil: n < 0}
		isArr := rapid.IntRange(0, 3).Draw(t, "array") == 0
		if isArr && n < 0 {
			n = 0
			v.Nil = false
		}
		for i := 0; i < n; i++ {
			v.E = append(v.E, genDumpValue(t, et, facts, true))
		}
		if isArr {
			return desc.Array(n, et), v
		}
		return desc.Slice(et), v
	case "map":
		et, _ := genDumpType(t, depth+1, maxDepth, facts, true)
		kk := rapid.SampledFrom([]string{"string", "string", "int", "uint8", "int64", "uint64", "uint", "int8", "uint32"}).Draw(t, "keyKind")
		n := rapid.IntRange(-1, 3).Draw(t, "entries")
		v := desc.V{Nil: n < 0}
		for i := 0; i < n; i++ {
			switch {
			case kk == "string":
				facts.strKeyMap = true
				if rapid.IntRange(0, 3).Draw(t, "oddKey") == 0 {
					v.K = append(v.K, desc.Str([]string{"\x7f", "\U000E0001k", "键\u2028"}[i]))
				} else {
					v.K = append(v.K, desc.Str([]string{"a", "键", "k 3"}[i]))
				}
			case strings.HasPrefix(kk, "uint"):
				// the extremes of the key type
				u := []uint64{0, math.MaxUint64, 1 << 63}[i]
				if rapid.Bool().Draw(t, "smallKey") {
					u = uint64(i * 100)
				}
				v.K = append(v.K, desc.V{U: clampUint(kk, u)})
			default:
				x := []int64{math.MinInt64, -1, math.MaxInt64}[i]
				if rapid.Bool().Draw(t, "smallKey") {
					x = int64(i*5 - 5)
				}
				v.K = append(v.K, desc.V{I: clampInt(kk, x)})
			}
			v.E = append(v.E, genDumpValue(t, et, facts, true))
		}
		if n >= 2 {
			facts.multiEntryMap = true
		}
		kt := desc.Scalar(kk)
		if _, ok := lib.NamedScalars[kk]; ok && rapid.IntRange(0, 2).Draw(t, "namedKey") == 0 {
			kt = desc.NamedScalar(kk) // a defined key type (type Color string): keyed like its kind
			facts.namedKey = true
		}
		return desc.Map(kt, et), v
	}
	return genDumpScalar(t, facts)
}

func genDumpStruct(t *rapid.T, depth, maxDepth int, facts *dumpFacts) (desc.T, desc.V) {
	n := rapid.SampledFrom([]int{0, 1, 1, 2, 2, 3, 4, 5}).Draw(t, "nFields")
	ty := desc.T{K: "struct"}
	v := desc.V{}
	exported := 0
	if depth == 0 && n > 0 && rapid.IntRange(0, 149).Draw(t, "bulk") == 77 {
		// ten thousand and more small elements in front of the other fields (counters, buffers and
		// comma bookkeeping inside the dumper see them all)
		total := rapid.SampledFrom([]int{10001, 12000, 20000}).Draw(t, "bulkLen")
		var bt desc.T
		var unit desc.V
		switch rapid.IntRange(0, 2).Draw(t, "bulkElem") {
		case 0:
			bt, unit = desc.T{K: "struct"}, desc.V{}
			facts.emptyStruct = true
		case 1:
			bt, unit = desc.Scalar("int"), desc.V{I: 7}
		default:
			bt, unit = desc.Ptr(desc.T{K: "struct", Fields: []desc.F{{Name: "A", T: desc.Scalar("bool")}}}), desc.V{Nil: true}
		}
		bv := desc.V{E: make([]desc.V, total)}
		for i := range bv.E {
			bv.E[i] = unit
		}
		ty.Fields = append(ty.Fields, desc.F{Name: "Bulk", T: desc.Slice(bt)})
		v.E = append(v.E, bv)
		exported++
		facts.bulk = true
	}
	for i := 0; i < n; i++ {
		ft, fv := genDumpType(t, depth+1, maxDepth, facts, false)
		name := fieldNames[i]
		if rapid.IntRange(0, 3).Draw(t, "unexported") == 0 {
			name = strings.ToLower(name) + "u"
			if rapid.IntRange(0, 2).Draw(t, "nonASCIIUnexp") == 0 {
				name = []string{"é", "ω", "д", "ñ", "ß"}[i%5] + name // unexported: lower-case letter outside ASCII
			}
			if i == 0 {
				facts.firstUnexported = true
			}
		} else {
			exported++
			switch rapid.IntRange(0, 9).Draw(t, "nameShape") {
			case 0:
				name = []string{"É", "Ω", "Д", "Ñ", "Ü"}[i%5] + strings.ToLower(name) // exported: upper-case letter outside ASCII
			case 1:
				name = name + strings.Repeat("x", []int{61, 62, 63, 64, 127}[i%5]) // long names (62..128 bytes)
			case 2:
				name = name + "_9é"
			case 4:
				name = "XXX_" + name // exported, named like the bookkeeping fields of older generated code: a field like any other
			case 3:
				if i == 0 {
					name = "Time" // an ordinary field that happens to be called like the embedded time.Time
				}
			}
		}
		f := desc.F{Name: name, T: ft}
		if rapid.IntRange(0, 5).Draw(t, "otherCodecTag") == 4 {
			// tags of other codecs (the dumper and the "field names as keys" reading of the property know no tags)
			f.Tags = map[string]string{rapid.SampledFrom([]string{"yaml", "db", "gorm", "xml", "bson", "valid"}).Draw(t, "codec"): rapid.SampledFrom([]string{"-", "-", "col,omitempty", "required"}).Draw(t, "codecTag")}
		}
		ty.Fields = append(ty.Fields, f)
		v.E = append(v.E, fv)
	}
	if n == 0 {
		facts.emptyStruct = true
	} else if exported == 0 {
		facts.noExported = true
	}
	return ty, v
}

// genDumpValue draws another value for an existing type (elements of collections).
func genDumpValue(t *rapid.T, ty desc.T, facts *dumpFacts, inCollection bool) desc.V {
	switch ty.K {
	case "struct":
		v := desc.V{}
		for _, f := range ty.Fields {
			v.E = append(v.E, genDumpValue(t, f.T, facts, false))
		}
		return v
	case "ptr":
		if rapid.IntRange(0, 3).Draw(t, "nilP") == 0 {
			if inCollection {
				facts.nilPtrInCollection = true
			}
			return desc.V{Nil: true}
		}
		return desc.V{E: []desc.V{genDumpValue(t, *ty.Elem, facts, false)}}
	case "slice", "array":
		n := rapid.IntRange(-1, 2).Draw(t, "ln")
		if ty.K == "array" {
			n = ty.Len
		}
		v := desc.V{Nil: n < 0}
		for i := 0; i < n; i++ {
			v.E = append(v.E, genDumpValue(t, *ty.Elem, facts, true))
		}
		return v
	case "map":
		n := rapid.IntRange(-1, 2).Draw(t, "en")
		v := desc.V{Nil: n < 0}
		for i := 0; i < n; i++ {
			switch ty.Key.K {
			case "string":
				v.K = append(v.K, desc.Str([]string{"a", "键"}[i]))
			case "uint8":
				v.K = append(v.K, desc.V{U: uint64(i * 100)})
			default:
				v.K = append(v.K, desc.V{I: int64(i*5 - 5)})
			}
			v.E = append(v.E, genDumpValue(t, *ty.Elem, facts, true))
		}
		return v
	case "string":
		return desc.Str(rapid.SampledFrom(dumpStrings).Draw(t, "s2"))
	case "bool":
		return desc.V{B: rapid.Bool().Draw(t, "b2")}
	case "float32":
		return desc.V{F: float64(float32(rapid.SampledFrom(dumpFloats).Draw(t, "f2")))}
	case "float64":
		return desc.V{F: rapid.SampledFrom(dumpFloats).Draw(t, "f2")}
	}
	if strings.HasPrefix(ty.K, "uint") {
		return desc.V{U: clampUint(ty.K, uint64(rapid.IntRange(0, 300).Draw(t, "u2")))}
	}
	return desc.V{I: clampInt(ty.K, int64(rapid.IntRange(-300, 300).Draw(t, "i2")))}
}

func decodeJSON(s string) (interface{}, error) {
	dec := json.NewDecoder(strings.NewReader(s))
	dec.UseNumber()
	var out interface{}
	if err := dec.Decode(&out); err != nil {
		return nil, err
	}
	if dec.More() {
		return nil, fmt.Errorf("trailing data after the JSON document")
	}
	var extra interface{}
	if err := dec.Decode(&extra); err == nil {
		return nil, fmt.Errorf("trailing data after the JSON document")
	}
	return out, nil
}

// sameDoc compares the dumper's document a with the standard encoder's document
// b, guided by the Go value: documented deviations (bool as string, nil slice
// as [], nil map as {}) and numeric comparison at the field's precision.
func sameDoc(a, b interface{}, v reflect.Value, path string) string {
	switch v.Kind() {
	case reflect.Ptr:
		if v.IsNil() {
			if a != nil {
				return fmt.Sprintf("%s: nil pointer dumped as %v, want null", path, a)
			}
			return ""
		}
		return sameDoc(a, b, v.Elem(), path)
	case reflect.Struct:
		am, ok := a.(map[string]interface{})
		bm, _ := b.(map[string]interface{})
		if !ok {
			return fmt.Sprintf("%s: struct dumped as %T, want object", path, a)
		}
		if len(am) != len(bm) {
			return fmt.Sprintf("%s: object has keys %v, standard encoder has %v", path, keysOf(am), keysOf(bm))
		}
		for i := 0; i < v.NumField(); i++ {
			f := v.Type().Field(i)
			if f.PkgPath != "" {
				if _, has := am[f.Name]; has {
					return fmt.Sprintf("%s: unexported field %s was dumped", path, f.Name)
				}
				continue
			}
			av, has := am[f.Name]
			if !has {
				return fmt.Sprintf("%s: field %s missing from the dump", path, f.Name)
			}
			if m := sameDoc(av, bm[f.Name], v.Field(i), path+"."+f.Name); m != "" {
				return m
			}
		}
		return ""
	case reflect.Slice, reflect.Array:
		aa, ok := a.([]interface{})
		if !ok {
			return fmt.Sprintf("%s: slice dumped as %T (%v), want array", path, a, a)
		}
		if v.Kind() == reflect.Slice && v.IsNil() {
			if len(aa) != 0 {
				return fmt.Sprintf("%s: nil slice dumped as %v, want []", path, aa)
			}
			return ""
		}
		ba, _ := b.([]interface{})
		if len(aa) != v.Len() || len(ba) != v.Len() {
			return fmt.Sprintf("%s: %d elements dumped, value has %d", path, len(aa), v.Len())
		}
		for i := range aa {
			if m := sameDoc(aa[i], ba[i], v.Index(i), fmt.Sprintf("%s[%d]", path, i)); m != "" {
				return m
			}
		}
		return ""
	case reflect.Map:
		am, ok := a.(map[string]interface{})
		if !ok {
			return fmt.Sprintf("%s: map dumped as %T, want object", path, a)
		}
		if v.IsNil() {
			if len(am) != 0 {
				return fmt.Sprintf("%s: nil map dumped as %v, want {}", path, am)
			}
			return ""
		}
		bm, _ := b.(map[string]interface{})
		if len(am) != v.Len() || len(bm) != v.Len() {
			return fmt.Sprintf("%s: object has keys %v, standard encoder has %v", path, keysOf(am), keysOf(bm))
		}
		for _, k := range v.MapKeys() {
			// the key as the standard encoder writes it: by kind (a String method of a defined key type plays no part)
			var ks string
			switch k.Kind() {
			case reflect.String:
				ks = k.String()
			case reflect.Int, reflect.Int8, reflect.Int16, reflect.Int32, reflect.Int64:
				ks = strconv.FormatInt(k.Int(), 10)
			case reflect.Uint, reflect.Uint8, reflect.Uint16, reflect.Uint32, reflect.Uint64, reflect.Uintptr:
				ks = strconv.FormatUint(k.Uint(), 10)
			default:
				ks = fmt.Sprint(k.Interface())
			}
			av, has := am[ks]
			if !has {
				return fmt.Sprintf("%s: key %q missing from the dump (keys %v)", path, ks, keysOf(am))
			}
			if m := sameDoc(av, bm[ks], v.MapIndex(k), path+"["+ks+"]"); m != "" {
				return m
			}
		}
		return ""
	case reflect.Bool:
		want := strconv.FormatBool(v.Bool())
		if s, ok := a.(string); !ok || s != want {
			return fmt.Sprintf("%s: bool dumped as %v, want the string %q", path, a, want)
		}
		return ""
	case reflect.String:
		if s, ok := a.(string); !ok || s != v.String() || b != interface{}(v.String()) {
			return fmt.Sprintf("%s: string dumped as %v, want %q", path, a, v.String())
		}
		return ""
	case reflect.Float32, reflect.Float64:
		an, ok := a.(json.Number)
		bn, _ := b.(json.Number)
		if !ok {
			return fmt.Sprintf("%s: float dumped as %T %v", path, a, a)
		}
		af, e1 := strconv.ParseFloat(string(an), 64)
		bf, e2 := strconv.ParseFloat(string(bn), 64)
		if e1 != nil || e2 != nil {
			return fmt.Sprintf("%s: unparsable number %q", path, an)
		}
		if v.Kind() == reflect.Float32 {
			if float32(af) != float32(bf) || float32(af) != float32(v.Float()) {
				return fmt.Sprintf("%s: float32 dumped as %s, standard encoder %s", path, an, bn)
			}
		} else if af != bf || af != v.Float() {
			return fmt.Sprintf("%s: float64 dumped as %s, standard encoder %s", path, an, bn)
		}
		return ""
	default: // integers
		an, ok := a.(json.Number)
		bn, _ := b.(json.Number)
		if !ok || string(an) != string(bn) {
			return fmt.Sprintf("%s: integer dumped as %v, standard encoder %v", path, a, b)
		}
		return ""
	}
}

func keysOf(m map[string]interface{}) []string {
	var k []string
	for x := range m {
		k = append(k, x)
	}
	sortStrings(k)
	return k
}

var prevDump, prevDumpClone string

func checkDump(c *DumpCase) string {
	c20History()
	if c.PreValid != "-" && c.PreValid != "unset" {
		src0 := desc.Build(desc.Type(c.T), c.V).Interface()
		_ = ev.Guard(func() { _ = valid.ValidateStruct(src0, c.PreValid) })
	}
	rv := desc.Build(desc.Type(c.T), c.V)
	src := rv.Interface()
	var dump string
	if p := ev.Guard(func() { dump = valid.GetDumpStructStr(src) }); p != nil {
		return fmt.Sprintf("panic: %v", p)
	}
	// the output handed out must stay what it was: the previous dump (kept with a private copy taken
	// on receipt) is re-read after this one, and this one is dumped a second time in between
	if prevDump != prevDumpClone {
		return fmt.Sprintf("an earlier dump output changed after later dumps: was %q, now reads %q", prevDumpClone, prevDump)
	}
	clone := strings.Clone(dump) // private copy taken on receipt
	var again string
	if p := ev.Guard(func() { again = valid.GetDumpStructStr(src) }); p != nil {
		return fmt.Sprintf("panic on the second dump of the same value: %v", p)
	}
	_ = again // (its text may differ from the first in the order of Go-map entries)
	if dump != clone {
		return fmt.Sprintf("the dump output changed when the same value was dumped again: now reads %q, was %q", dump, clone)
	}
	prevDump, prevDumpClone = dump, clone
	std, err := json.Marshal(src)
	if err != nil {
		return "" // outside the domain of the standard encoder
	}
	a, err := decodeJSON(dump)
	if err != nil {
		return fmt.Sprintf("dump is not well-formed JSON (%v): %s   [standard encoder: %s]", err, dump, std)
	}
	b, _ := decodeJSON(string(std))
	if m := sameDoc(a, b, rv, "$"); m != "" {
		return m + fmt.Sprintf("   [dump: %s] [standard encoder: %s]", dump, std)
	}
	return ""
}

var c20HistoryOnce sync.Once

// c20History: process history outside the domain - a struct with an embedded time.Time is dumped once
// before anything else (its output is not judged; what it leaves behind must not change later dumps).
func c20History() {
	c20HistoryOnce.Do(func() {
		_ = ev.Guard(func() {
			_ = valid.GetDumpStructStr(&struct {
				time.Time
				Name string
			}{Time: time.Unix(1700000000, 0), Name: "first"})
		})
	})
}

// propC20 is the property; TestC20 drives it with rapid's random generator, FuzzC20Rapid with the coverage-guided
// native fuzzer (thorough tier).
func propC20(t *rapid.T) {
	facts := &dumpFacts{}
	st, sv := genDumpStruct(t, 0, rapid.IntRange(1, ev.Pick(5, 6)).Draw(t, "maxDepth"), facts)
	c := &DumpCase{T: st, V: sv, PreValid: rapid.SampledFrom([]string{"-", "-", "", "", "valid", "json"}).Draw(t, "preValid")}
	switch rapid.IntRange(0, 5).Draw(t, "top") {
	case 0:
		c.T, c.V = desc.Ptr(st), desc.V{Nil: true}
	case 1, 2, 3:
		c.T, c.V = desc.Ptr(st), desc.V{E: []desc.V{sv}}
	}
	for name, on := range map[string]bool{"empty-struct": facts.emptyStruct, "bool": facts.boolean, "string-keyed-map": facts.strKeyMap, "map-key-of-a-defined-type": facts.namedKey, "ten-thousand-elements-before-other-fields": facts.bulk, "multi-entry-map": facts.multiEntryMap,
		"struct-without-exported-fields": facts.noExported, "nil-pointer-in-collection": facts.nilPtrInCollection, "first-field-unexported": facts.firstUnexported} {
		if on {
			ev.Class("has-" + name)
		}
	}
	ev.Class(fmt.Sprintf("depth=%s", bucket(facts.depth)))
	nt := facts.emptyStruct || facts.boolean || facts.strKeyMap || facts.multiEntryMap || facts.noExported || facts.nilPtrInCollection
	b, _ := jsonMarshal(c)
	ev.Case(string(b), nt, func() interface{} { return c })
	if msg := checkDump(c); msg != "" {
		ev.Fail(t, "C20", "dump", c, "%s", msg)
	}
}

func TestC20(t *testing.T) { rapid.Check(t, propC20) }

func FuzzC20Rapid(f *testing.F) { f.Fuzz(rapid.MakeFuzz(propC20)) }

func TestC20Replay(t *testing.T) {
	for _, f := range ev.ReplayFiles() {
		rp, err := ev.LoadReplay(f)
		if err != nil {
			t.Fatalf("replay %s: %v", f, err)
		}
		ev.Class("replayed")
		var c DumpCase
		if err := jsonUnmarshal(rp.Case, &c); err != nil {
			t.Fatalf("replay %s: %v", f, err)
		}
		if msg := checkDump(&c); msg != "" {
			ev.Fail(t, "C20", "dump", &c, "%s (replay %s)", msg, f)
		}
	}
}

var _ = bytes.NewReader
