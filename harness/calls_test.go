package harness

import (
	"errors"
	"fmt"
	"math"
	"reflect"
	"sort"
	"strings"

	"gitee.com/xuesongtao/protoc-go-valid/valid"
	"pgregory.net/rapid"

	"verifharness/desc"
	"verifharness/ev"
	"verifharness/model"
)

// ---- one validation call of any entry point, as a value (C08, C11, C12) ----

// Call is a struct-entry call or a Var / Map / Url call, fully described by
// JSON-serialisable descriptors.
type Call struct {
	S *StructCase `json:"struct,omitempty"`
	V *ScalarCase `json:"scalar,omitempty"`
	H *HelperCall `json:"helper,omitempty"`
}

// HelperCall is a call of one of the exported helpers (they share the pooled
// buffers with the validators): its "outcome" is the text it returns.
type HelperCall struct {
	Name string `json:"name"` // dump | dumpjson | dumpjson-bad | explain | genkv | split | timefmt | strescape
	Arg  string `json:"arg,omitempty"`
}

type helperDumpT struct {
	A string
	N int
	F float64
	M map[string]int
	C chan int
	P *helperDumpT
}

func (h *HelperCall) run() string {
	switch h.Name {
	case "dump":
		return valid.GetDumpStructStr(&helperDumpT{A: h.Arg, N: len(h.Arg), M: map[string]int{"k": 1}, P: &helperDumpT{A: "in"}})
	case "dumpjson":
		return valid.GetDumpStructStrForJson(&struct {
			A string
			N int
		}{h.Arg, len(h.Arg)})
	case "dumpjson-bad": // a value encoding/json cannot encode: the error path of the helper
		return valid.GetDumpStructStrForJson(&struct {
			A string
			F float64
			C chan int
		}{h.Arg, math.NaN(), make(chan int)})
	case "explain":
		return valid.GetOnlyExplainErr(`"A" input "1", explain: ` + h.Arg + `; "B" input "", 说明: 必填` + h.Arg)
	case "genkv":
		return valid.GenValidKV("to", h.Arg, "msg "+h.Arg) + "|" + valid.GenValidKV("re", h.Arg) + "|" + valid.GenValidKV("in", h.Arg, "")
	case "split":
		return strings.Join(valid.ValidNamesSplit("required,re='"+h.Arg+",x',to=1~2|"+h.Arg), "\x00")
	case "timefmt":
		return valid.GetTimeFmt(int8(len(h.Arg)), strings.Split(h.Arg, ",")...)
	case "strescape":
		return valid.StrEscape(h.Arg + "'\"\n")
	case "urlforfn":
		// validators that are given a function but NO rule set: they have nothing to judge by, whatever
		// other calls brought along
		if err := valid.UrlForFn("http://h.x/p?k=&id=&z=abc", "cfn1", customFn("call", "cfn1")); err != nil {
			return "UrlForFn: " + err.Error()
		}
		return "UrlForFn: <nil>"
	case "norules":
		out := ""
		if err := valid.NewVMap().Valid(map[string]string{"k": "", "id": ""}); err != nil {
			out += "VMap: " + err.Error()
		}
		if err := valid.NewVUrl().Valid("http://h.x/p?k=&id="); err != nil {
			out += " VUrl: " + err.Error()
		}
		if err := valid.NewVVar().Valid("abc"); err != nil {
			out += " VVar: " + err.Error()
		}
		return out
	}
	return ""
}

// outcome of one executed call.
type outcome struct {
	Text  string `json:"text"`
	Nil   bool   `json:"nil"`
	Panic string `json:"panic,omitempty"`
}

func (o outcome) String() string {
	if o.Panic != "" {
		return "panic: " + o.Panic
	}
	if o.Nil {
		return "<nil>"
	}
	return fmt.Sprintf("%q", o.Text)
}

// prepared is a call whose arguments exist already: run does nothing but the
// library call (no harness lock, no allocation of types).
type prepared struct {
	call func() error
	// for the immutability check of C12
	src   interface{}
	rms   []valid.RM
	rmsCp []map[string]string
	post  func() string // scalar calls: the collection handed in, compared with a rebuilt one
	// the function table handed to StructForFns (one object per prepared call: a call that runs again hands the same table over)
	fm      valid.Name2FnMap
	fmNames []string
}

func (p *prepared) run() outcome {
	var err error
	if pn := ev.Guard(func() { err = p.call() }); pn != nil {
		return outcome{Panic: fmt.Sprint(pn)}
	}
	if err == nil {
		return outcome{Nil: true}
	}
	return outcome{Text: err.Error()}
}

// prepare builds the arguments.  Every call of prepare builds fresh values,
// so two prepared calls never share input memory.
func (c *Call) prepare() *prepared {
	if c.H != nil {
		h := *c.H
		return &prepared{call: func() error {
			if s := h.run(); s != "" {
				return errors.New(s) // the helper's text travels as the "error" of the call
			}
			return nil
		}}
	}
	if c.V != nil {
		var v reflect.Value
		p := &prepared{call: c.V.prepareV(&v)}
		if k := v.Kind(); k == reflect.Slice || k == reflect.Array {
			sc := c.V
			p.post = func() string {
				if vb, _ := jsonMarshal(sc.Val); strings.Contains(string(vb), `"nan":true`) {
					return "" // NaN is never DeepEqual to itself
				}
				if again := sc.value(); !reflect.DeepEqual(v.Interface(), again.Interface()) {
					return fmt.Sprintf("input value changed: now %+v, was built as %+v", v.Interface(), again.Interface())
				}
				return ""
			}
		}
		return p
	}
	s := c.S
	src := s.source()
	p := &prepared{src: src}
	// the rule maps are built once and handed to the library as they are, so
	// that "the call leaves its rule map unmodified" can be observed
	var unscoped valid.RM
	if s.Unscoped != nil {
		unscoped = toRM(s.Unscoped)
		if s.RMSlot != "" {
			unscoped = slotRM(s.RMSlot, s.Unscoped)
		}
		p.rms = append(p.rms, unscoped)
		p.rmsCp = append(p.rmsCp, copyMap(s.Unscoped))
	}
	names := make([]string, 0, len(s.PerType))
	for n := range s.PerType {
		names = append(names, n)
	}
	sort.Strings(names)
	perType := map[string]valid.RM{}
	for _, n := range names {
		perType[n] = toRM(s.PerType[n])
		p.rms = append(p.rms, perType[n])
		p.rmsCp = append(p.rmsCp, copyMap(s.PerType[n]))
	}
	var decoys []valid.RM
	if s.Twice {
		if s.Unscoped != nil {
			decoys = append(decoys, decoyOf(s.Unscoped))
		}
		for _, n := range names {
			decoys = append(decoys, decoyOf(s.PerType[n]))
		}
		for _, d := range decoys {
			p.rms = append(p.rms, d)
			cp := map[string]string{}
			for k, v := range d {
				cp[k] = v
			}
			p.rmsCp = append(p.rmsCp, cp)
		}
	}
	if s.Entry == "StructForFns" {
		// the caller keeps its function table: built once, handed over as it is, looked at after the call
		cp := *s
		cp.fm = valid.Name2FnMap{}
		for _, n := range s.CallFns {
			cp.fm[n] = perCallFn(n)
		}
		p.fm, p.fmNames = cp.fm, append([]string(nil), s.CallFns...)
		s = &cp
	}
	p.call = func() error { return s.callWith(src, unscoped, perType, names, decoys...) }
	for _, n := range s.CallFns {
		if n == "reenter" {
			// (sequential checks only: the object the function validates travels in a package-level variable)
			rt := reflect.TypeOf(src)
			for rt.Kind() == reflect.Ptr {
				rt = rt.Elem()
			}
			if rt.Kind() == reflect.Struct {
				other := reflect.New(rt).Interface()
				inner := p.call
				p.call = func() error {
					reenterSrc = other
					defer func() { reenterSrc = nil }()
					return inner()
				}
			}
		}
	}
	return p
}

// rmSlots: rule-map objects that live as long as one history (StructCase.RMSlot).
var rmSlots = map[string]valid.RM{}

// slotRM refills the slot's rule-map object in place with the given rules.
func slotRM(slot string, m map[string]string) valid.RM {
	rm := rmSlots[slot]
	if rm == nil {
		rm = valid.NewRule()
		rmSlots[slot] = rm
	}
	for k := range rm {
		delete(rm, k)
	}
	for k, v := range m {
		rm[k] = v
	}
	return rm
}

func copyMap(m map[string]string) map[string]string {
	out := make(map[string]string, len(m))
	for k, v := range m {
		out[k] = strings.Clone(v)
	}
	return out
}

// inputsUnchanged compares the arguments after the call with what they were
// built from (C12: the call leaves its input value and rule map unmodified).
func (p *prepared) inputsUnchanged(c *Call) string {
	if p.post != nil {
		return p.post()
	}
	if c.S == nil || c.H != nil {
		return ""
	}
	if p.fm != nil {
		// (a table the call has added names to is another table for the next call it is handed to)
		ev.Class("function table of StructForFns compared after the call")
		have := make([]string, 0, len(p.fm))
		for n := range p.fm {
			have = append(have, n)
		}
		sort.Strings(have)
		want := append([]string(nil), p.fmNames...)
		sort.Strings(want)
		want = dedupSorted(want)
		if strings.Join(have, "\x00") != strings.Join(want, "\x00") {
			return fmt.Sprintf("function table changed: the call was given functions for %q, afterwards the caller's table holds %q", want, have)
		}
	}
	for i, rm := range p.rms {
		if len(rm) != len(p.rmsCp[i]) {
			return fmt.Sprintf("rule map changed: now %v, was %v", rm, p.rmsCp[i])
		}
		for k, v := range p.rmsCp[i] {
			if got, ok := rm[k]; !ok || got != v {
				return fmt.Sprintf("rule map entry %q changed: now %q (present=%v), was %q", k, got, ok, v)
			}
		}
	}
	if vb, _ := jsonMarshal(c.S.Val); strings.Contains(string(vb), `"nan":true`) {
		return "" // a NaN map key is never DeepEqual to itself: the value comparison cannot be made
	}
	again := c.S.source()
	if !reflect.DeepEqual(p.src, again) {
		return fmt.Sprintf("input value changed: now %+v, was built as %+v", p.src, again)
	}
	return ""
}

// callWith is StructCase.call with rule maps supplied by the caller.
func (c *StructCase) callWith(src interface{}, unscoped valid.RM, perType map[string]valid.RM, names []string, decoys ...valid.RM) error {
	switch c.Entry {
	case "Struct":
		if c.Unscoped != nil {
			return valid.Struct(src, unscoped)
		}
		return valid.Struct(src)
	case "ValidateStruct":
		if c.Tag != "" {
			return valid.ValidateStruct(src, c.tagArg())
		}
		return valid.ValidateStruct(src)
	case "StructForFn":
		if c.Tag != "" {
			return valid.StructForFn(src, unscoped, c.tagArg())
		}
		return valid.StructForFn(src, unscoped)
	case "ValidStructForRule":
		if c.Tag != "" {
			return valid.ValidStructForRule(unscoped, src, c.tagArg())
		}
		return valid.ValidStructForRule(unscoped, src)
	case "ValidStructForMyValidFn":
		if c.Tag != "" {
			return valid.ValidStructForMyValidFn(src, c.CallFns[0], perCallFn(c.CallFns[0]), c.tagArg())
		}
		return valid.ValidStructForMyValidFn(src, c.CallFns[0], perCallFn(c.CallFns[0]))
	case "StructForFns":
		fm := c.fm
		if fm == nil {
			fm = valid.Name2FnMap{}
			for _, n := range c.CallFns {
				fm[n] = perCallFn(n)
			}
		}
		if c.Tag != "" {
			return valid.StructForFns(src, unscoped, fm, c.tagArg())
		}
		return valid.StructForFns(src, unscoped, fm)
	case "Nested":
		m := map[interface{}]valid.RM{}
		for _, n := range names {
			m[c.typeToken(libType(n), true)] = perType[n]
		}
		return valid.NestedStructForRule(src, m)
	}
	var vs *valid.VStruct
	if c.Tag != "" {
		vs = valid.NewVStruct(c.tagArg())
	} else {
		vs = valid.NewVStruct()
	}
	di := 0
	if c.Unscoped != nil {
		if c.Twice && di < len(decoys) {
			vs.SetRule(decoys[di]) // replaced by the next call
			di++
		}
		vs.SetRule(unscoped)
	}
	for _, n := range names {
		if c.Twice && di < len(decoys) {
			vs.SetRule(decoys[di], c.typeToken(libType(n), false))
			di++
		}
		vs.SetRule(perType[n], c.typeToken(libType(n), false))
	}
	if c.Twice {
		multiTokenDecoy(vs, c.Unscoped)
	}
	for _, n := range c.CallFns {
		vs.SetValidFn(n, perCallFn(n))
	}
	return vs.Valid(src)
}

// predict is the independent oracle for one call: the reference walker (struct
// calls) or the rule oracles (scalar calls).  It returns the expected result
// and whether clause order may legitimately vary (Go map / several groups).
func (c *Call) predict() (res *model.Result, unordered bool) {
	if c.H != nil {
		return &model.Result{Excluded: []string{"helper-call"}}, c.H.Name == "dump" // (Go-map order inside the dump)
	}
	if c.V != nil {
		if c.V.NoModel {
			return &model.Result{Excluded: []string{"malformed-rule-text"}}, false
		}
		res = c.V.expect()
		return res, c.V.Carrier == "mapiface" && len(c.V.Others) > 0
	}
	if c.S.NoModel {
		return &model.Result{Excluded: []string{"rejected-source"}}, false
	}
	res = model.Walk(c.S.walkCfg(), reflect.ValueOf(c.S.source()))
	return res, res.SawMap || len(res.Groups) > 1
}

// againstModel compares an outcome with the prediction ("" = agrees or the
// oracle does not decide the case).
func (c *Call) againstModel(res *model.Result, o outcome) string {
	if o.Panic != "" {
		return "panic: " + o.Panic
	}
	if len(res.Excluded) > 0 {
		return ""
	}
	if c.V != nil && c.V.Carrier == "mapiface" && !c.V.Missing && ev.KnownActive("KF-iface") {
		return "" // known finding, judged by C01/C03/C18
	}
	if c.V != nil && c05Excluded(c.V) != "" {
		return "" // the value makes the error text ambiguous for the clause parser: metamorphic oracles only
	}
	return model.Compare(res, o.Text, o.Nil, false)
}

// clauseBag is the sorted clause multiset of an error text.
func clauseBag(s string) string {
	parts := strings.Split(s, model.Sep)
	sort.Strings(parts)
	return strings.Join(parts, model.Sep)
}

// sameOutcome: identical, or - when the case involves a Go map or several
// groups, whose iteration order the library does not fix - the same clauses in
// another order.
func sameOutcome(a, b outcome, unordered bool) bool {
	if a.Panic != "" || b.Panic != "" {
		return false
	}
	if a.Nil != b.Nil {
		return false
	}
	if a.Text == b.Text {
		return true
	}
	return unordered && clauseBag(a.Text) == clauseBag(b.Text)
}

func (c *Call) key() string {
	b, _ := jsonMarshal(c)
	return string(b)
}

func (c *Call) typeKey() string {
	if c.H != nil {
		return "helper:" + c.H.Name
	}
	if c.S == nil {
		return "scalar:" + c.V.Carrier + ":" + c.V.T.K
	}
	if c.S.Many != nil {
		b, _ := jsonMarshal(c.S.Many)
		return "many:" + string(b)
	}
	r := c.S.Root
	for r.K != "struct" && r.K != "named" && r.Elem != nil {
		r = *r.Elem
	}
	b, _ := jsonMarshal(r)
	return string(b)
}

func libType(n string) reflect.Type { return desc.Type(desc.Named(n)) }

// ---- generators shared by the history / schedule properties ----

var multiTags = []string{"valid", "alipay", "wechat"}

// callTags: the tag names a call may ask for.  "Valid" differs from the default name in case only;
// the types also carry "my_valid", a key that ENDS in the default name and is written before it.
var callTags = []string{"valid", "alipay", "wechat", "valid", "Valid"}

// genMultiTagType synthesises a struct type whose fields carry rule sets under
// up to three tag names.
func genMultiTagType(t *rapid.T, mg *msgGen, maxDepth int) (*structGen, desc.T) {
	g := &structGen{t: t, mg: mg, tag: "valid", maxDepth: maxDepth, maxField: rapid.IntRange(1, 5).Draw(t, "maxField"),
		containerMarks: []string{"required", "exist", "-"}, scalarKinds: cheapScalarKinds, unexported: true,
		extraTags: []string{"alipay", "wechat", "Valid", "my_valid"}}
	if rapid.IntRange(0, 5).Draw(t, "wideType") == 3 {
		// a wide, flat type (generated messages have dozens of fields): its analysis takes long enough to overlap with another one
		g.maxField, g.maxDepth = rapid.SampledFrom([]int{17, 24, 40, 64}).Draw(t, "wideFields"), 0
	}
	g.leafRules = func(kind string, v desc.V) string { return genRuleItems(t, kind, v, mg, 3, true) }
	ty, _ := g.genStruct(0)
	// either / botheq groups (their per-call table is pooled state too)
	for _, tag := range multiTags {
		tag := tag
		walkTypes(&ty, func(st *desc.T) { addGroups(t, st, tag) })
	}
	if len(ty.Fields) == 0 {
		ty.Fields = append(ty.Fields, desc.F{Name: "A", T: desc.Scalar("string"), Tags: map[string]string{"valid": "required", "alipay": "to=2~3", "wechat": "phone"}})
	}
	return g, ty
}

// genOverride draws a per-call rule set for some scalar fields of a synthesised type.
func genOverride(t *rapid.T, ty desc.T, mg *msgGen) map[string]string {
	rm := map[string]string{}
	for _, f := range ty.Fields {
		if !desc.Exported(f.Name) || f.T.Elem != nil || f.T.K == "struct" || f.T.K == "time" || f.T.K == "bool" {
			continue
		}
		if rapid.IntRange(0, 2).Draw(t, "ov-"+f.Name) == 0 {
			rm[f.Name] = genSizeRule(t, int64(rapid.IntRange(0, 4).Draw(t, "ovM")), "ov") + mg.next(t)
			if rapid.IntRange(0, 3).Draw(t, "ovReq") == 0 {
				rm[f.Name] = "required," + rm[f.Name]
			}
			if rapid.IntRange(0, 3).Draw(t, "ovQuoted") == 0 {
				// a quoted option list: the rule text takes the splitter's quote-aware path
				if rapid.Bool().Draw(t, "ovQuotedLast") {
					rm[f.Name] += ",in=('zz,q'/7/ab)" + mg.next(t)
				} else {
					rm[f.Name] = "in=('zz,q'/7/ab)" + mg.next(t) + "," + rm[f.Name]
				}
			}
		}
	}
	// a literal key that joins two field names with a comma names no field (RM.Set splits such lists
	// when IT is used; a key written directly into the map is just a key): it selects nothing
	if len(ty.Fields) >= 2 && rapid.IntRange(0, 5).Draw(t, "commaKey") == 3 {
		rm[ty.Fields[0].Name+","+ty.Fields[1].Name] = "required|comma key,to=1~1|comma key"
	}
	return rm
}

// genScalarCall draws a Var / Map / Url / one-field-struct call.
func genScalarCall(t *rapid.T, mg *msgGen) *ScalarCase {
	if rapid.IntRange(0, 7).Draw(t, "sliceCall") == 3 {
		// a slice of scalars handed to Var or sitting in a one-field struct: a few elements or dozens, in descending order
		ek := rapid.SampledFrom([]string{"int", "string", "int64"}).Draw(t, "sek")
		c := &ScalarCase{T: desc.Slice(desc.Scalar(ek))}
		if rapid.Bool().Draw(t, "sDozens") {
			c.Val = dozens(t, ek)
		} else {
			for i := rapid.IntRange(1, 4).Draw(t, "sn"); i > 0; i-- {
				c.Val.E = append(c.Val.E, genScalar(t, ek, "se", false))
			}
		}
		for i := rapid.IntRange(1, 2).Draw(t, "snRules"); i > 0; i-- {
			c.Rules = append(c.Rules, rapid.SampledFrom([]string{"unique", "unique", "ge=2", "le=40", "required"}).Draw(t, "srule")+mg.next(t))
		}
		c.Carrier = rapid.SampledFrom([]string{"var", "var", "tag", "rm"}).Draw(t, "carrier")
		c.ViaPtr = rapid.IntRange(0, 5).Draw(t, "viaPtr") == 0
		return c
	}
	kind := rapid.SampledFrom([]string{"string", "string", "int", "int8", "uint8", "uint64", "float64", "bool"}).Draw(t, "skind")
	c := &ScalarCase{T: desc.Scalar(kind), Val: genScalar(t, kind, "sv", true)}
	m, hasM := measureOf(kind, c.Val)
	n := rapid.IntRange(1, 3).Draw(t, "snRules")
	for i := 0; i < n; i++ {
		switch rapid.IntRange(0, 5).Draw(t, "srule") {
		case 0:
			c.Rules = append(c.Rules, "required"+mg.next(t))
		case 1:
			c.Rules = append(c.Rules, "in=(a/ab/1/2/测试)"+mg.next(t))
		case 2:
			if kind == "string" {
				c.Rules = append(c.Rules, rapid.SampledFrom([]string{"phone", "email", "int", "date", "re='^[a-c]+$'", "prefix=a"}).Draw(t, "sfmt")+mg.next(t))
				break
			}
			fallthrough
		default:
			if hasM && kind != "bool" {
				c.Rules = append(c.Rules, genSizeRule(t, m, "ssz")+mg.next(t))
			} else {
				c.Rules = append(c.Rules, "in=(true/1)"+mg.next(t))
			}
		}
	}
	if rapid.IntRange(0, 4).Draw(t, "longQuoted") == 0 {
		// a rule list of more than 64 (and 128) bytes that contains a quote: the splitter's
		// quote-aware path works on it, and its LAST rule decides the visible outcome
		long := strings.Repeat("long text ", rapid.IntRange(5, 12).Draw(t, "longLen"))
		last := "noeq=77|last rule " + mg.next(t)
		if hasM && kind != "bool" {
			last = genSizeRule(t, m, "lastsz") + "|last " + long
		}
		c.Rules = append([]string{"in=('a,b'/ab/1/" + long + ")" + mg.next(t)}, c.Rules...)
		c.Rules = append(c.Rules, last)
	}
	for _, r := range c.Rules {
		if strings.HasPrefix(r, "re='") {
			if c.RePats == nil {
				c.RePats = map[string]string{}
			}
			c.RePats[r] = "^[a-c]+$"
		}
	}
	if rapid.IntRange(0, 9).Draw(t, "oddQuote") == 4 {
		// an apostrophe in a message or option: the quote never closes (the splitter's quote-aware path
		// runs to the end of the text with an open quote on its stack)
		c.Rules = append(c.Rules, rapid.SampledFrom([]string{"required|can't be empty", "to=1~2|it's too long", "in=(it's/a)", "re='^a", "prefix='"}).Draw(t, "oddQuoteRule"))
		if rapid.Bool().Draw(t, "oddQuoteFirst") {
			c.Rules[0], c.Rules[len(c.Rules)-1] = c.Rules[len(c.Rules)-1], c.Rules[0]
		}
		c.NoModel = true
	}
	// a function defined for this call only, named like a built-in, like a global function or freshly
	if rapid.IntRange(0, 2).Draw(t, "sCallFn") == 0 {
		name := rapid.SampledFrom([]string{"phone", "cfn1", "shadowed", "email", "int", "required"}).Draw(t, "sFnName")
		c.Rules = append(c.Rules, name)
		c.CallFns = []string{name}
	}
	cars := []string{"var", "map", "listmap", "tag", "rm"}
	if kind == "string" && urlSafe(c.Val.S) && c.Val.SB == nil {
		cars = append(cars, "url", "urlenc")
	}
	c.Carrier = rapid.SampledFrom(cars).Draw(t, "carrier")
	if c.Carrier == "url" || c.Carrier == "urlenc" {
		k := rapid.IntRange(0, 2).Draw(t, "others")
		for i := 0; i < k; i++ {
			c.Others = append(c.Others, [2]string{fmt.Sprintf("p%d", i), rapid.SampledFrom([]string{"", "1", "abc"}).Draw(t, "other")})
		}
		c.Pos = rapid.IntRange(0, k).Draw(t, "pos")
	}
	if (c.Carrier == "map" || c.Carrier == "url") && rapid.IntRange(0, 5).Draw(t, "missing") == 0 && !c.callFn("required") {
		c.Missing = true // (not next to a per-call function named required: what that means for an absent entry is undocumented)
	}
	finishScalar(t, c)
	if c.Carrier == "var" && !c.NoModel && !c.callFn("required") && rapid.IntRange(0, 2).Draw(t, "commonPrefix") == 1 {
		// the rule list starts with a prefix that every such call takes from one shared slice
		c.Common = rapid.SampledFrom([]string{"A", "B"}).Draw(t, "commonName")
		c.Rules = append(append([]string(nil), commonRules[c.Common]...), c.Rules...)
	}
	if c.Carrier == "var" && rapid.IntRange(0, 7).Draw(t, "badSrc") == 5 {
		// a call that Var turns down before it validates anything (what it was given stays with that call)
		c.BadSrc, c.NoModel = rapid.SampledFrom([]string{"nil", "typednil", "struct", "map"}).Draw(t, "badSrcKind"), true
	}
	return c
}

// reenterSrc: what the per-call function "reenter" validates from inside the running validation.
var reenterSrc interface{}

// perCallFn is the function registered for one call; in the C12 process it
// also records the strings the library hands to it.
func perCallFn(n string) valid.CommonValidFn {
	if f, ok := sizeAliasFns[n]; ok {
		return f
	}
	if n == "reenter" {
		// a function that validates ANOTHER object of the type being validated (an empty one) before it judges its
		// own field - a validation inside a validation; it reports like every custom function of the harness
		inner := perCallFn("reenter-inner")
		return func(errBuf *strings.Builder, validName, objName, fieldName string, tv reflect.Value) {
			if reenterSrc != nil {
				_ = valid.Struct(reenterSrc)
			}
			inner(errBuf, validName, objName, fieldName, tv)
		}
	}
	if n == "reenter-inner" {
		n = "reenter"
	}
	if fnReceived != nil {
		return recordingFn("call", n)
	}
	return customFn("call", n)
}

func sortedKeys(m map[string]string) []string {
	out := make([]string, 0, len(m))
	for k := range m {
		out = append(out, k)
	}
	sort.Strings(out)
	return out
}

func dedupSorted(a []string) []string {
	out := a[:0]
	for i, x := range a {
		if i == 0 || x != a[i-1] {
			out = append(out, x)
		}
	}
	return out
}

// addTagFn writes the name cfn1 - a rule only some calls define - into the tags of the first plain scalar field of a
// synthesised type (under every tag name of multiTags); false if the type has no such field.
func addTagFn(ty *desc.T) bool {
	for j := range ty.Fields {
		f := &ty.Fields[j]
		if desc.Exported(f.Name) && f.T.Elem == nil && f.T.K != "struct" && f.T.K != "time" {
			if f.Tags == nil {
				f.Tags = map[string]string{}
			}
			for _, tg := range multiTags {
				if f.Tags[tg] == "" {
					f.Tags[tg] = "cfn1"
				} else if !strings.Contains(f.Tags[tg], "either") && !strings.Contains(f.Tags[tg], "botheq") {
					f.Tags[tg] += ",cfn1"
				}
			}
			return true
		}
	}
	return false
}
