package harness

// Hostile constants: pairs of legitimate strings that collide under the 32-bit string hashes a
// maintainer is likely to reach for (hash/fnv, hash/crc32, hash/adler32, the 31 / 33 / 131 / 65599
// multiplicative hashes, a 64-bit FNV-1a folded or truncated to 32 bits).  A memo or cache that
// identifies tag names, regular expressions or rule texts by such a hash instead of by the text
// confuses exactly these pairs; random generation never produces one (found by a birthday search
// over 4M candidates per family, /verif/tools/collide.go.txt).
// Families: tag = struct-tag keys; re = anchored literal patterns (the word between ^ and $ is the
// one matching string); rule = whole rule lists of one field, one with required and one without.
type collision struct {
	hash string
	tag  [2]string
	re   [2]string
	rule [2]string
}

var collisions = []collision{
	{"fnv1a32", [2]string{"tpo7ed", "tcbix5"}, [2]string{"^c5x8u9$", "^ckzzuc$"}, [2]string{"required|ns1lrz", "le=3|nrtt66"}},
	{"fnv1_32", [2]string{"ty9fy4", "t2d9cm"}, [2]string{"^ch35o0$", "^c15jar$"}, [2]string{"required|nyhpu7", "le=3|n1t3x9"}},
	{"crc32ieee", [2]string{"tp58ia", "tlzdhu"}, [2]string{"^cu770l$", "^cixk1x$"}, [2]string{"", ""}},
	{"adler32", [2]string{"thibii", "tyo1uw"}, [2]string{"^c3uwdc$", "^ci7fhx$"}, [2]string{"", ""}},
	{"java31", [2]string{"tsl8wc", "tsjx9c"}, [2]string{"^c264pi$", "^c0rt2i$"}, [2]string{"", ""}},
	{"djb2", [2]string{"taoe6v", "taocxv"}, [2]string{"^c1uy4u$", "^c355x3$"}, [2]string{"", ""}},
	{"djb2x", [2]string{"t74ciy", "t9zcg7"}, [2]string{"^c53l29$", "^c5130f$"}, [2]string{"", ""}},
	{"bkdr131", [2]string{"t1o80w", "tzdvh1"}, [2]string{"", ""}, [2]string{"required|n27shy", "le=3|n5hxj0"}},
	{"sdbm", [2]string{"", ""}, [2]string{"", ""}, [2]string{"required|naw13u", "le=3|nw2pa9"}},
	{"fnv1a64fold", [2]string{"t34v9p", "twtbq4"}, [2]string{"^c1bxoi$", "^cnhu9i$"}, [2]string{"required|nvzyig", "le=3|nhxvq0"}},
	{"fnv1a64lo", [2]string{"tf3zae", "t4qt5c"}, [2]string{"^cngca0$", "^c2i1q0$"}, [2]string{"required|n9ydko", "le=3|n9abui"}},
}

func collidingTags() (out []string) {
	for _, c := range collisions {
		if c.tag[0] != "" {
			out = append(out, c.tag[0], c.tag[1])
		}
	}
	return
}

func collidingRes() (out [][2]string) {
	for _, c := range collisions {
		if c.re[0] != "" {
			out = append(out, c.re)
		}
	}
	return
}

func collidingRules() (out [][2]string) {
	for _, c := range collisions {
		if c.rule[0] != "" {
			out = append(out, c.rule)
		}
	}
	return
}
