// Package desc holds JSON-serialisable descriptors of Go types and values
// ("programs" in the sense of the properties: struct types synthesised at run
// time) and materialises them with reflect.
package desc

import (
	"encoding/json"
	"fmt"
	"go/token"
	"math"
	"os"
	"reflect"
	"strconv"
	"strings"
	"sync"
	"time"
	"unicode/utf8"
	"unsafe"

	"verifharness/lib"
)

// T describes a type.
type T struct {
	K      string `json:"k"` // string int int8.. uint.. uintptr float32 float64 bool struct ptr slice array map time named iface func chan
	Name   string `json:"name,omitempty"`
	Elem   *T     `json:"elem,omitempty"`
	Key    *T     `json:"key,omitempty"`
	Len    int    `json:"len,omitempty"`
	Fields []F    `json:"fields,omitempty"`
}

// F describes a struct field.
type F struct {
	Name     string            `json:"name"`
	T        T                 `json:"t"`
	Tags     map[string]string `json:"tags,omitempty"`
	TagOrder []string          `json:"tagorder,omitempty"`
	Embedded bool              `json:"embedded,omitempty"`
}

// V describes a value of some type.
type V struct {
	Nil bool    `json:"nil,omitempty"` // nil pointer / slice / map / interface / func / chan
	S   string  `json:"s,omitempty"`
	SB  []byte  `json:"sb,omitempty"` // raw bytes when the string is not valid UTF-8
	I   int64   `json:"i,omitempty"`
	U   uint64  `json:"u,omitempty"`
	F   float64 `json:"f,omitempty"`
	B   bool    `json:"b,omitempty"`
	E   []V     `json:"e,omitempty"`  // elements / struct fields (by index) / pointer target (1 element)
	K   []V     `json:"mk,omitempty"` // map keys, parallel to E
	DT  *T      `json:"dt,omitempty"` // dynamic type of an interface value
	// Share > 0 on a pointer value: use the Share-th pointer of this pointer type
	// that this Build has already completed (aliasing: the same sub-object is
	// reachable twice).  Only completed pointers can be shared, so no cycle arises.
	// If fewer exist, the pointer is built from E as usual.
	Share int `json:"share,omitempty"`
	// Interior > 0 on a pointer value that is a struct field: the pointer is the address of the
	// (Interior-1)-th field of the same struct, a by-value field of the pointee type declared
	// earlier (an interior pointer; with field 0 it equals the address of the enclosing object).
	// If that field does not fit, the pointer is built from E as usual.
	Interior int `json:"interior,omitempty"`
	// NegZero: the float value is negative zero (F cannot carry it through JSON's omitempty)
	NegZero bool `json:"negzero,omitempty"`
	// NaN: the float value is NaN (JSON cannot carry it)
	NaN bool `json:"nan,omitempty"`
}

// Str makes a string value descriptor.
func Str(s string) V {
	if utf8.ValidString(s) {
		return V{S: s}
	}
	return V{SB: []byte(s)}
}

func (v V) str() string {
	if v.SB != nil {
		return string(v.SB)
	}
	return v.S
}

var scalarTypes = map[string]reflect.Type{
	"string": reflect.TypeOf(""), "bool": reflect.TypeOf(false),
	"int": reflect.TypeOf(int(0)), "int8": reflect.TypeOf(int8(0)), "int16": reflect.TypeOf(int16(0)), "int32": reflect.TypeOf(int32(0)), "int64": reflect.TypeOf(int64(0)),
	"uint": reflect.TypeOf(uint(0)), "uint8": reflect.TypeOf(uint8(0)), "uint16": reflect.TypeOf(uint16(0)), "uint32": reflect.TypeOf(uint32(0)), "uint64": reflect.TypeOf(uint64(0)),
	"uintptr": reflect.TypeOf(uintptr(0)),
	"float32": reflect.TypeOf(float32(0)), "float64": reflect.TypeOf(float64(0)),
	"time":  reflect.TypeOf(time.Time{}),
	"iface": reflect.TypeOf((*interface{})(nil)).Elem(),
	"func":  reflect.TypeOf(func() {}),
	"chan":  reflect.TypeOf(make(chan int)),
}

// StdNamed: defined scalar types of the standard library, by kind (T.Name == "std").
var StdNamed = map[string]reflect.Type{"int64": reflect.TypeOf(time.Duration(0)), "int": reflect.TypeOf(time.Month(0)), "uint32": reflect.TypeOf(os.FileMode(0))}

// Scalars lists the scalar kind names usable as field types.
var Scalars = []string{"string", "bool", "int", "int8", "int16", "int32", "int64", "uint", "uint8", "uint16", "uint32", "uint64", "float32", "float64"}

var (
	typeMu    sync.Mutex
	typeCache = map[string]reflect.Type{}
	// NTypes counts distinct synthesised struct types in this process.
	NTypes int
)

const harnessPkg = "verifharness/desc"

// TagString renders the tag map as a conventional struct tag (order: TagOrder, then sorted rest).
func (f F) TagString() string {
	var parts []string
	seen := map[string]bool{}
	add := func(k string) {
		if v, ok := f.Tags[k]; ok && !seen[k] {
			seen[k] = true
			parts = append(parts, k+":"+strconv.Quote(v))
		}
	}
	for _, k := range f.TagOrder {
		add(k)
	}
	rest := make([]string, 0, len(f.Tags))
	for k := range f.Tags {
		if !seen[k] {
			rest = append(rest, k)
		}
	}
	sortStrings(rest)
	for _, k := range rest {
		add(k)
	}
	return strings.Join(parts, " ")
}

func sortStrings(a []string) {
	for i := 1; i < len(a); i++ {
		for j := i; j > 0 && a[j] < a[j-1]; j-- {
			a[j], a[j-1] = a[j-1], a[j]
		}
	}
}

// Type materialises a type descriptor.
func Type(t T) reflect.Type {
	typeMu.Lock()
	defer typeMu.Unlock()
	return typeLocked(t)
}

func typeLocked(t T) reflect.Type {
	if st, ok := scalarTypes[t.K]; ok {
		if t.Name == "std" {
			if nt, ok := StdNamed[t.K]; ok {
				return nt
			}
		}
		if t.Name != "" { // the named (defined) variant of the scalar kind, where the library has one
			if nt, ok := lib.NamedScalars[t.K]; ok {
				return nt
			}
		}
		return st
	}
	switch t.K {
	case "named":
		ty, ok := lib.Types[t.Name]
		if !ok {
			panic("desc: unknown named type " + t.Name)
		}
		return ty
	case "ptr":
		return reflect.PtrTo(typeLocked(*t.Elem))
	case "slice":
		return reflect.SliceOf(typeLocked(*t.Elem))
	case "array":
		return reflect.ArrayOf(t.Len, typeLocked(*t.Elem))
	case "map":
		return reflect.MapOf(typeLocked(*t.Key), typeLocked(*t.Elem))
	case "struct":
		b, _ := json.Marshal(t)
		key := string(b)
		if ty, ok := typeCache[key]; ok {
			return ty
		}
		fs := make([]reflect.StructField, len(t.Fields))
		for i, f := range t.Fields {
			sf := reflect.StructField{Name: f.Name, Type: typeLocked(f.T), Tag: reflect.StructTag(f.TagString())}
			if !Exported(f.Name) {
				sf.PkgPath = harnessPkg
			}
			fs[i] = sf
		}
		ty := reflect.StructOf(fs)
		typeCache[key] = ty
		NTypes++
		return ty
	}
	panic("desc: bad type kind " + t.K)
}

// Build materialises a value descriptor as an addressable value of type ty.
func Build(ty reflect.Type, v V) reflect.Value {
	out := reflect.New(ty).Elem()
	fill(&buildCtx{ptrs: map[reflect.Type][]reflect.Value{}}, out, v)
	return out
}

type buildCtx struct {
	ptrs map[reflect.Type][]reflect.Value // completed non-nil pointers by type, in order of completion
}

func fill(ctx *buildCtx, dst reflect.Value, v V) {
	ty := dst.Type()
	if ty == scalarTypes["time"] {
		if !v.Nil && v.I != 0 {
			dst.Set(reflect.ValueOf(time.Unix(v.I, 0).UTC()))
		}
		return
	}
	switch ty.Kind() {
	case reflect.String:
		dst.SetString(v.str())
	case reflect.Bool:
		dst.SetBool(v.B)
	case reflect.Int, reflect.Int8, reflect.Int16, reflect.Int32, reflect.Int64:
		dst.SetInt(v.I)
	case reflect.Uint, reflect.Uint8, reflect.Uint16, reflect.Uint32, reflect.Uint64, reflect.Uintptr:
		dst.SetUint(v.U)
	case reflect.Float32, reflect.Float64:
		if v.NaN {
			dst.SetFloat(math.NaN())
		} else if v.NegZero {
			dst.SetFloat(math.Copysign(0, -1))
		} else {
			dst.SetFloat(v.F)
		}
	case reflect.Ptr:
		if v.Share > 0 && !v.Nil && len(ctx.ptrs[ty]) >= v.Share {
			dst.Set(ctx.ptrs[ty][v.Share-1])
			return
		}
		if v.Nil || len(v.E) == 0 {
			return
		}
		p := reflect.New(ty.Elem())
		fill(ctx, p.Elem(), v.E[0])
		dst.Set(p)
		ctx.ptrs[ty] = append(ctx.ptrs[ty], p)
	case reflect.Slice:
		if v.Nil {
			return
		}
		s := reflect.MakeSlice(ty, len(v.E), len(v.E))
		for i := range v.E {
			fill(ctx, s.Index(i), v.E[i])
		}
		dst.Set(s)
	case reflect.Array:
		for i := 0; i < ty.Len() && i < len(v.E); i++ {
			fill(ctx, dst.Index(i), v.E[i])
		}
	case reflect.Map:
		if v.Nil {
			return
		}
		m := reflect.MakeMapWithSize(ty, len(v.E))
		for i := range v.E {
			if i >= len(v.K) {
				break
			}
			k := reflect.New(ty.Key()).Elem()
			fill(ctx, k, v.K[i])
			e := reflect.New(ty.Elem()).Elem()
			fill(ctx, e, v.E[i])
			m.SetMapIndex(k, e)
		}
		dst.Set(m)
	case reflect.Struct:
		for i := 0; i < ty.NumField() && i < len(v.E); i++ {
			f := dst.Field(i)
			if !f.CanSet() {
				f = reflect.NewAt(f.Type(), unsafe.Pointer(f.UnsafeAddr())).Elem()
			}
			if j := v.E[i].Interior - 1; j >= 0 && j < i && f.Kind() == reflect.Ptr && !v.E[i].Nil && dst.CanAddr() && dst.Field(j).Type() == f.Type().Elem() {
				f.Set(reflect.NewAt(f.Type().Elem(), unsafe.Pointer(dst.Field(j).UnsafeAddr())))
				continue
			}
			fill(ctx, f, v.E[i])
		}
	case reflect.Interface:
		if v.Nil || v.DT == nil || len(v.E) == 0 {
			return
		}
		dst.Set(Build(Type(*v.DT), v.E[0]))
	case reflect.Func:
		if v.Nil {
			return
		}
		dst.Set(reflect.MakeFunc(ty, func([]reflect.Value) []reflect.Value { return nil }))
	case reflect.Chan:
		if v.Nil {
			return
		}
		dst.Set(reflect.MakeChan(ty, 0))
	default:
		panic(fmt.Sprintf("desc: cannot build %v", ty))
	}
}

// Exported reports whether a field name is exported in Go's sense (first rune is an upper-case letter).
func Exported(name string) bool { return token.IsExported(name) }

// Named is shorthand for a named library type descriptor.
func Named(name string) T { return T{K: "named", Name: name} }

// Ptr wraps a descriptor in a pointer.
func Ptr(t T) T { return T{K: "ptr", Elem: &t} }

// Slice makes a slice type descriptor.
func Slice(t T) T { return T{K: "slice", Elem: &t} }

// Array makes an array type descriptor.
func Array(n int, t T) T { return T{K: "array", Len: n, Elem: &t} }

// Map makes a map type descriptor.
func Map(k, e T) T { return T{K: "map", Key: &k, Elem: &e} }

// Scalar makes a scalar type descriptor.
func Scalar(k string) T { return T{K: k} }

// NamedScalar makes the descriptor of the named (defined) variant of a scalar kind.
func NamedScalar(k string) T { return T{K: k, Name: "My"} }
