// Package ev is the evidence / replay plumbing shared by every check.
//
// One process runs one property.  The property code calls Case once per
// evaluated case; Fail serialises the failing case to $VERIF_REPLAY_OUT (rapid
// re-runs the minimal case last, so the file that survives is the shrunk one);
// Flush dumps the measured counters to $VERIF_STATS_OUT for the driver.
package ev

import (
	"encoding/binary"
	"encoding/json"
	"fmt"
	"hash/fnv"
	"os"
	"sort"
	"strings"
	"sync"
	"time"
)

// TB is the common subset of *testing.T and *rapid.T that the checks need.
type TB interface {
	Helper()
	Fatalf(format string, args ...interface{})
	Logf(format string, args ...interface{})
}

const maxDistinct = 400000 // per process; beyond that the set stops growing (reported)

type recorder struct {
	mu          sync.Mutex
	evaluations int64
	nontrivial  int64
	distinct    map[uint64]struct{}
	saturated   bool
	classes     map[string]int64
	excluded    map[string]int64
	known       map[string]int64
	samples     []json.RawMessage
	ntSamples   int
	trSamples   int
	nextNT      int64
	exhaustive  []map[string]interface{}
	extra       map[string]interface{}
	active      map[string]bool
}

var r = newRecorder()

func newRecorder() *recorder {
	rec := &recorder{
		distinct: map[uint64]struct{}{},
		classes:  map[string]int64{},
		excluded: map[string]int64{},
		known:    map[string]int64{},
		extra:    map[string]interface{}{},
		active:   map[string]bool{},
		nextNT:   1,
	}
	for _, k := range strings.Split(os.Getenv("VERIF_KNOWN"), ",") {
		if k = strings.TrimSpace(k); k != "" {
			rec.active[k] = true
		}
	}
	return rec
}

func hash(s string) uint64 {
	h := fnv.New64a()
	h.Write([]byte(s))
	return h.Sum64()
}

// Case records one evaluated case.  key is a canonical encoding of the case
// (used only for distinct counting), nontrivial is the property's stated rule
// applied to this case, sample is called lazily for the few cases written out.
func Case(key string, nontrivial bool, sample func() interface{}) {
	r.mu.Lock()
	defer r.mu.Unlock()
	r.evaluations++
	take := false
	if nontrivial {
		r.nontrivial++
		if !r.saturated {
			r.distinct[hash(key)] = struct{}{}
			if len(r.distinct) >= maxDistinct {
				r.saturated = true
			}
		}
		// geometric spacing: 1st, 4th, 16th, ... non-trivial case
		if r.nontrivial == r.nextNT && r.ntSamples < 7 {
			take = true
			r.ntSamples++
			r.nextNT *= 4
		}
	} else if r.trSamples < 1 {
		take = true
		r.trSamples++
	}
	if take && sample != nil {
		if b, err := json.Marshal(sample()); err == nil {
			r.samples = append(r.samples, b)
		}
	}
}

// Class counts a generator class label (distribution of what was generated).
func Class(label string) {
	r.mu.Lock()
	r.classes[label]++
	r.mu.Unlock()
}

// ClassN adds n to a class label.
func ClassN(label string, n int64) {
	r.mu.Lock()
	r.classes[label] += n
	r.mu.Unlock()
}

// Excluded counts a case (or a choice) that was excluded by construction.
func Excluded(label string) {
	r.mu.Lock()
	r.excluded[label]++
	r.mu.Unlock()
}

// KnownActive reports whether KNOWN_FINDINGS.txt lists key as `known:`.
func KnownActive(key string) bool { return r.active[key] }

// Known is called when a case matches the class predicate of a known finding.
// It returns true (and counts the hit) if that finding is listed; otherwise the
// caller must treat the discrepancy as a violation.
func Known(key string) bool {
	if !r.active[key] {
		return false
	}
	r.mu.Lock()
	r.known[key]++
	r.mu.Unlock()
	return true
}

// Exhaustive records a sub-space that was enumerated completely.
func Exhaustive(name string, size int64, note string) {
	r.mu.Lock()
	r.exhaustive = append(r.exhaustive, map[string]interface{}{"name": name, "size": size, "note": note})
	r.mu.Unlock()
}

// Extra stores an additional measured value in the evidence.
func Extra(name string, v interface{}) {
	r.mu.Lock()
	r.extra[name] = v
	r.mu.Unlock()
}

// ExtraAdd adds to an integer extra counter.
func ExtraAdd(name string, n int64) {
	r.mu.Lock()
	cur, _ := r.extra[name].(int64)
	r.extra[name] = cur + n
	r.mu.Unlock()
}

// Replay is the on-disk form of a failing (or regression) case.
type Replay struct {
	Property string          `json:"property"`
	Sub      string          `json:"subcheck"`
	Case     json.RawMessage `json:"case"`
	Note     string          `json:"note,omitempty"`
	Seed     string          `json:"seed,omitempty"`
}

// WriteReplay serialises a case to $VERIF_REPLAY_OUT (overwriting).
func WriteReplay(property, sub string, c interface{}, note string) {
	path := os.Getenv("VERIF_REPLAY_OUT")
	if path == "" {
		return
	}
	cb, err := json.Marshal(c)
	if err != nil {
		cb, _ = json.Marshal(fmt.Sprintf("unserialisable case: %v", err))
	}
	b, _ := json.MarshalIndent(Replay{Property: property, Sub: sub, Case: cb, Note: note, Seed: os.Getenv("VERIF_RAPID_SEED")}, "", " ")
	_ = os.WriteFile(path, b, 0o644)
}

// ClearReplay removes a replay file written for a case that turned out fine
// (schedule properties write the case before running it: if the race detector
// ends the process, the file left behind is the offending case).
func ClearReplay() {
	if path := os.Getenv("VERIF_REPLAY_OUT"); path != "" {
		_ = os.Remove(path)
	}
}

// Fail writes the replay file for the current case and fails the test.
func Fail(t TB, property, sub string, c interface{}, format string, args ...interface{}) {
	t.Helper()
	note := fmt.Sprintf(format, args...)
	WriteReplay(property, sub, c, note)
	t.Fatalf("[%s/%s] %s", property, sub, note)
}

// LoadReplay reads a replay file.
func LoadReplay(path string) (Replay, error) {
	var rp Replay
	b, err := os.ReadFile(path)
	if err != nil {
		return rp, err
	}
	err = json.Unmarshal(b, &rp)
	return rp, err
}

// ReplayFiles returns the replay files the driver asked this process to run.
func ReplayFiles() []string {
	var out []string
	for _, p := range strings.Split(os.Getenv("VERIF_REPLAY_FILES"), "\n") {
		if p = strings.TrimSpace(p); p != "" {
			out = append(out, p)
		}
	}
	return out
}

// Tier returns "quick" or "thorough".
func Tier() string {
	if os.Getenv("VERIF_TIER") == "thorough" {
		return "thorough"
	}
	return "quick"
}

// Thorough reports whether the thorough tier is running.
func Thorough() bool { return Tier() == "thorough" }

// Pick returns q in the quick tier and th in the thorough tier.
func Pick(q, th int) int {
	if Thorough() {
		return th
	}
	return q
}

// Shard returns (index, count) of this process among the thorough-tier shards.
func Shard() (int, int) {
	var i, n int
	fmt.Sscanf(os.Getenv("VERIF_SHARD"), "%d/%d", &i, &n)
	if n <= 0 {
		return 0, 1
	}
	return i, n
}

// Flush writes the counters to $VERIF_STATS_OUT (+ ".hashes" with the distinct set).
func Flush() {
	path := os.Getenv("VERIF_STATS_OUT")
	if path == "" {
		return
	}
	r.mu.Lock()
	defer r.mu.Unlock()
	samples := make([]json.RawMessage, len(r.samples))
	copy(samples, r.samples)
	out := map[string]interface{}{
		"evaluations":         r.evaluations,
		"nontrivial":          r.nontrivial,
		"distinct_nontrivial": len(r.distinct),
		"distinct_saturated":  r.saturated,
		"classes":             r.classes,
		"excluded":            r.excluded,
		"known_findings":      r.known,
		"samples":             samples,
		"exhaustive":          r.exhaustive,
		"extra":               r.extra,
	}
	b, _ := json.Marshal(out)
	_ = os.WriteFile(path, b, 0o644)
	hs := make([]uint64, 0, len(r.distinct))
	for h := range r.distinct {
		hs = append(hs, h)
	}
	sort.Slice(hs, func(i, j int) bool { return hs[i] < hs[j] })
	buf := make([]byte, 8*len(hs))
	for i, h := range hs {
		binary.LittleEndian.PutUint64(buf[8*i:], h)
	}
	_ = os.WriteFile(path+".hashes", buf, 0o644)
}

// Guard runs f and converts a panic into a returned value.
func Guard(f func()) (panicked interface{}) {
	defer func() {
		if p := recover(); p != nil {
			panicked = p
		}
	}()
	f()
	return nil
}

// Watched runs f (one case of a sequential check) in a goroutine of its own.  If f has not
// returned after limit - orders of magnitude above what such a case takes - the case is
// written as the replay file, the counters are flushed and the process ends with status 1:
// a call that never returns cannot be stopped or shrunk, and "the call returns" is part of
// every property checked this way.
func Watched(property, sub string, c interface{}, limit time.Duration, f func()) {
	done := make(chan struct{})
	go func() {
		defer close(done)
		f()
	}()
	tm := time.NewTimer(limit)
	defer tm.Stop()
	select {
	case <-done:
	case <-tm.C:
		note := fmt.Sprintf("the case did not finish within %v: a call never returned (deadlock or endless loop)", limit)
		WriteReplay(property, sub, c, note)
		Flush()
		fmt.Printf("--- FAIL: [%s/%s] %s\n", property, sub, note)
		os.Exit(1)
	}
}
