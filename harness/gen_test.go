package harness

import (
	"fmt"
	"math"
	"reflect"
	"strconv"
	"strings"
	"time"
	"unicode/utf8"

	"pgregory.net/rapid"

	"verifharness/desc"
	"verifharness/ev"
	"verifharness/lib"
)

// ---- shared generators for the struct-shaped properties (C02, C03, C04, C16, C17, C08, C11, C12) ----

// strPool: strings without characters that make the error text ambiguous
// (no double quote, no "; ", no explanation label) and without rule syntax.
var strPool = []string{"a", "ab", "abc", "abcd", "abcde", "测", "测试", "测试测", "a测b", "x1", "007", "12", "5", "0", "13812345678", "a@b.cd", "1.5", "x y", "A-B_c", "😀a", "éx",
	"100%", "%d%s", "%!v", "a/b", "a\\b", "谬误", "丯", "İstanbul", "\u212aelvin", "※‹›‼", "１２３", "12٣", "a%41b", "50%25 off", strings.Repeat("x", 63), strings.Repeat("y", 64), strings.Repeat("z", 257)} // (%: the text may end up in a format string; 谬/丯: code points ending in 0x2C / 0x2F; １２３ / 12٣: digits, but not the ASCII ones)

var alphabetRunes = []rune("abcXYZ019 _-.:/测试验证😀é%谬")

func genString(t *rapid.T, label string, allowEmpty bool) string {
	if rapid.IntRange(0, 299).Draw(t, label+"Big") == 151 {
		// beyond 64 KiB, in characters of three bytes each (character count and byte count are far apart)
		return strings.Repeat("长", rapid.SampledFrom([]int{21846, 22000, 30000}).Draw(t, label+"BigLen")) + "a"
	}
	switch rapid.IntRange(0, 9).Draw(t, label+"Mode") {
	case 0:
		if allowEmpty {
			return ""
		}
		fallthrough
	case 1, 2, 3, 4, 5:
		return rapid.SampledFrom(strPool).Draw(t, label)
	default:
		n := rapid.IntRange(1, 8).Draw(t, label+"Len")
		var b strings.Builder
		for i := 0; i < n; i++ {
			b.WriteRune(rapid.SampledFrom(alphabetRunes).Draw(t, label+"R"))
		}
		s := b.String()
		if strings.TrimSpace(s) == "" {
			return "a"
		}
		return s
	}
}

var intPool = []int64{1, 2, 3, 4, 5, 7, 10, 100, -1, -2, -5, 127, 128, 255, 256, 65535, 1 << 31, -(1 << 31), math.MaxInt64, math.MinInt64,
	1 << 53, 1<<53 + 1, math.MaxInt64 - 1, math.MinInt64 + 1, 1<<62 + 1, 1 << 62} // neighbours above 2^53 differ by less than the float64 spacing

func clampInt(kind string, v int64) int64 {
	bits := map[string]int{"int8": 8, "int16": 16, "int32": 32}[kind]
	if bits == 0 {
		return v
	}
	lo, hi := -(int64(1) << (bits - 1)), (int64(1)<<(bits-1))-1
	if v < lo {
		return lo
	}
	if v > hi {
		return hi
	}
	return v
}

func clampUint(kind string, v uint64) uint64 {
	bits := map[string]int{"uint8": 8, "uint16": 16, "uint32": 32}[kind]
	if bits == 0 {
		return v
	}
	if hi := (uint64(1) << bits) - 1; v > hi {
		return hi
	}
	return v
}

var floatPool = []float64{0.5, 1, 1.5, 2, 2.5, 3, -1.5, -2, 3.000001, 1e-9, 123456.789, 0.1, 100}

// genScalar draws a value of a scalar kind; zeroOK allows the zero value.
func genScalar(t *rapid.T, kind, label string, zeroOK bool) desc.V {
	zero := zeroOK && rapid.IntRange(0, 4).Draw(t, label+"Zero") == 0
	switch {
	case kind == "string":
		if zero {
			return desc.V{}
		}
		return desc.Str(genString(t, label, false))
	case kind == "bool":
		return desc.V{B: !zero}
	case strings.HasPrefix(kind, "int"):
		if zero {
			return desc.V{}
		}
		var v int64
		if rapid.IntRange(0, 3).Draw(t, label+"Small") > 0 {
			v = int64(rapid.IntRange(-4, 9).Draw(t, label))
		} else {
			v = rapid.SampledFrom(intPool).Draw(t, label)
		}
		v = clampInt(kind, v)
		if v == 0 {
			v = 1
		}
		return desc.V{I: v}
	case strings.HasPrefix(kind, "uint"):
		if zero {
			return desc.V{}
		}
		var v uint64
		if rapid.IntRange(0, 3).Draw(t, label+"Small") > 0 {
			v = uint64(rapid.IntRange(1, 9).Draw(t, label))
		} else {
			v = rapid.SampledFrom([]uint64{1, 2, 127, 128, 255, 256, 65535, 65536, 1 << 31, 1 << 32, math.MaxUint64, math.MaxUint64 - 1, 1 << 53, 1<<53 + 1, 1 << 63, 1<<63 + 1}).Draw(t, label)
		}
		return desc.V{U: clampUint(kind, v)}
	case kind == "float32" || kind == "float64":
		if zero {
			if rapid.IntRange(0, 3).Draw(t, label+"NegZero") == 0 {
				return desc.V{NegZero: true} // -0.0 is a zero value too
			}
			return desc.V{}
		}
		f := rapid.SampledFrom(floatPool).Draw(t, label)
		if rapid.Bool().Draw(t, label+"Int") {
			f = float64(rapid.IntRange(-3, 9).Draw(t, label+"I"))
			if f == 0 {
				f = 1
			}
		}
		if kind == "float32" {
			f = float64(float32(f))
		}
		return desc.V{F: f}
	}
	panic("genScalar: " + kind)
}

// measureOf returns the documented measure of a scalar / slice descriptor
// (for biasing rule bounds towards the boundary).
func measureOf(kind string, v desc.V) (int64, bool) {
	switch {
	case kind == "string":
		s := v.S
		if v.SB != nil {
			s = string(v.SB)
		}
		return int64(utf8.RuneCountInString(s)), true
	case strings.HasPrefix(kind, "int"):
		return v.I, true
	case strings.HasPrefix(kind, "uint"):
		if v.U > math.MaxInt64 {
			return math.MaxInt64, true
		}
		return int64(v.U), true
	case strings.HasPrefix(kind, "float"):
		return int64(math.Floor(v.F)), true
	case kind == "slice":
		if v.Nil {
			return 0, true
		}
		return int64(len(v.E)), true
	}
	return 0, false
}

func canonOf(kind string, v desc.V) string {
	switch {
	case kind == "string":
		if v.SB != nil {
			return string(v.SB)
		}
		return v.S
	case kind == "bool":
		return strconv.FormatBool(v.B)
	case strings.HasPrefix(kind, "int"):
		return strconv.FormatInt(v.I, 10)
	case strings.HasPrefix(kind, "uint"):
		return strconv.FormatUint(v.U, 10)
	case kind == "float32":
		return strconv.FormatFloat(v.F, 'f', -1, 32)
	case kind == "float64":
		return strconv.FormatFloat(v.F, 'f', -1, 64)
	}
	return ""
}

// msgGen hands out unique custom messages.
type msgGen struct {
	n    int
	mode int // 0 none, 1 all ascii, 2 all cjk, 3 mixed per rule
}

func (m *msgGen) next(t *rapid.T) string {
	mode := m.mode
	if mode == 3 {
		mode = rapid.IntRange(0, 2).Draw(t, "msgMode")
	}
	if mode == 0 {
		return ""
	}
	m.n++
	long := ""
	if rapid.IntRange(0, 11).Draw(t, "longMsg") == 0 {
		long = " " + strings.Repeat("long message text ", 5) // rule texts beyond 64 / 100 bytes
	}
	if mode == 1 {
		return fmt.Sprintf("|m%d%s", m.n, long)
	}
	return fmt.Sprintf("|说%d%s", m.n, long)
}

func safeOpt(s string) bool {
	return s != "" && !strings.ContainsAny(s, "/()',|=\"; ")
}

func addSat(x, d int64) int64 {
	if d > 0 && x > math.MaxInt64-d {
		return math.MaxInt64
	}
	if d < 0 && x < math.MinInt64-d {
		return math.MinInt64
	}
	return x + d
}

// genSizeRule draws one of the eight size rules with bounds next to the measure.
func genSizeRule(t *rapid.T, m int64, label string) string {
	key := rapid.SampledFrom([]string{"to", "ge", "le", "oto", "gt", "lt", "eq", "noeq"}).Draw(t, label+"Key")
	d := int64(rapid.IntRange(-2, 2).Draw(t, label+"D"))
	// bounds are decimal numerals; now and then they are written with leading zeros (010 is ten)
	num := func(x int64) string {
		if rapid.IntRange(0, 11).Draw(t, label+"Pad") != 0 || x == math.MinInt64 {
			return strconv.FormatInt(x, 10)
		}
		if x < 0 {
			return "-0" + strconv.FormatInt(-x, 10)
		}
		return "0" + strconv.FormatInt(x, 10)
	}
	switch key {
	case "to", "oto":
		lo := addSat(m, d)
		hi := addSat(lo, int64(rapid.IntRange(0, 3).Draw(t, label+"W")))
		return key + "=" + num(lo) + "~" + num(hi)
	}
	return key + "=" + num(addSat(m, d))
}

// genRuleItems draws a rule list for a scalar (or scalar-slice) field whose
// value is known, biased so that about half of the rule instances are violated.
// pool selects the catalogue: "cheap" (rules with exact cheap oracles).
func genRuleItems(t *rapid.T, kind string, v desc.V, mg *msgGen, maxRules int, withRequired bool) string {
	n := rapid.IntRange(1, maxRules).Draw(t, "nRules")
	if rapid.IntRange(0, 6).Draw(t, "noRules") == 0 {
		n = 0
	}
	var items []string
	m, hasMeasure := measureOf(kind, v)
	canon := canonOf(kind, v)
	for i := 0; i < n; i++ {
		var choices []string
		if hasMeasure && kind != "bool" {
			choices = append(choices, "size", "size", "size")
		}
		if kind != "slice" {
			choices = append(choices, "in")
		}
		if kind == "string" {
			choices = append(choices, "prefix", "suffix", "int", "unique", "phone", "email", "include")
		} else if kind != "slice" && kind != "bool" {
			choices = append(choices, "int", "float")
		} else if kind == "slice" {
			choices = append(choices, "unique", "ints")
		}
		if withRequired {
			choices = append(choices, "required")
		}
		choices = append(choices, "unknown", "malformed", "empty", "repeat")
		switch rapid.SampledFrom(choices).Draw(t, "ruleClass") {
		case "size":
			items = append(items, genSizeRule(t, m, "sz")+mg.next(t))
		case "in":
			opts := []string{"zz", "7", "q1"}
			if rapid.Bool().Draw(t, "inHit") && safeOpt(canon) {
				opts[rapid.IntRange(0, 2).Draw(t, "inPos")] = canon
			}
			if rapid.IntRange(0, 3).Draw(t, "inQuoted") == 1 {
				// options written in quotes, one of them with a comma inside (the list of rules AND the list of
				// options are then split quote-aware, one inside the other)
				for i := range opts {
					opts[i] = "'" + opts[i] + "'"
				}
				opts = append(opts, "'zz,q'")
			}
			items = append(items, "in=("+strings.Join(opts, "/")+")"+mg.next(t))
		case "include":
			opts := []string{"zz", "q1"}
			if rapid.Bool().Draw(t, "incHit") && safeOpt(canon) {
				r := []rune(canon)
				opts[0] = string(r[len(r)/2:])
			}
			items = append(items, "include=("+strings.Join(opts, "/")+")"+mg.next(t))
		case "prefix", "suffix":
			k := "prefix"
			arg := "zq"
			if rapid.Bool().Draw(t, "isSuffix") {
				k = "suffix"
			}
			if r := []rune(canon); len(r) > 0 && rapid.Bool().Draw(t, "affixHit") {
				cut := rapid.IntRange(1, len(r)).Draw(t, "affixCut")
				if k == "prefix" {
					arg = string(r[:cut])
				} else {
					arg = string(r[len(r)-cut:])
				}
			}
			if !safeOpt(arg) {
				arg = "zq"
			}
			items = append(items, k+"="+arg+mg.next(t))
		case "int":
			items = append(items, "int"+mg.next(t))
		case "float":
			items = append(items, "float"+mg.next(t))
		case "unique":
			items = append(items, "unique"+mg.next(t))
		case "ints":
			items = append(items, "ints"+mg.next(t))
		case "phone":
			items = append(items, "phone"+mg.next(t))
		case "email":
			items = append(items, "email"+mg.next(t))
		case "required":
			items = append(items, "required"+mg.next(t))
		case "unknown":
			items = append(items, rapid.SampledFrom([]string{"nosuch", "size=1~50", "Required", "len", "required2", "required_if=1", "existx", "-", "-"}).Draw(t, "unknownName"))
		case "malformed":
			items = append(items, rapid.SampledFrom([]string{"to=5", "oto=1~2~3", "to=a~b", "in=1/2", "include=ab"}).Draw(t, "malformed"))
		case "empty":
			items = append(items, "")
		case "repeat":
			if len(items) > 0 {
				items = append(items, items[rapid.IntRange(0, len(items)-1).Draw(t, "repeatIdx")])
			}
		}
	}
	return strings.Join(items, ",")
}

// mapKeyName is the i-th string key of generated maps.  mapKeyStyle is set once
// per case by the generators that care (0 = short keys).
var mapKeyStyle int

func mapKeyName(i int) string {
	switch mapKeyStyle {
	case 1: // long keys that share their first 50 bytes
		return strings.Repeat("k", 50) + fmt.Sprintf("%d", i)
	case 2: // dotted keys (paths are dot-separated)
		return fmt.Sprintf("a.b.c.d.e.f.g.h.i.j.k.%d", i)
	case 3: // keys with brackets, blanks, percent
		return fmt.Sprintf("k[%d] 100%%", i)
	}
	return fmt.Sprintf("k%d", i)
}

var fieldNames = []string{"A", "B", "C", "D", "E", "F", "G", "H", "I", "J"}

// structGen synthesises struct types (via descriptors) together with values.
type structGen struct {
	t        *rapid.T
	mg       *msgGen
	tag      string
	maxDepth int
	maxField int
	// knobs
	containerMarks []string // candidate marker rule lists for container fields
	scalarKinds    []string
	unexported     bool
	withTime       bool
	leafRules      func(kind string, v desc.V) string
	extraTags      []string // further tag names under which fields carry (other) rule sets (C08)
}

// genFlags: what the value generators drew for the current case (read and reset by takeGenFlags).
var genFlags struct{ bulk, interior bool }

// takeGenFlags reports the classes of the case just generated.
func takeGenFlags() {
	if genFlags.bulk {
		ev.Class("payload-sized slice of scalars (>= 10001 elements)")
	}
	if genFlags.interior {
		ev.Class("interior pointer (a pointer field holding the address of a by-value sibling)")
	}
	genFlags.bulk, genFlags.interior = false, false
}

// addExtraTags gives a scalar / slice field rule sets under the extra tag names.
func (g *structGen) addExtraTags(f *desc.F, kind string, v desc.V) {
	for _, et := range g.extraTags {
		if rapid.IntRange(0, 3).Draw(g.t, "extraTag") == 0 {
			continue
		}
		if r := g.leafRules(kind, v); r != "" {
			if f.Tags == nil {
				f.Tags = map[string]string{}
			}
			f.Tags[et] = r
		}
	}
}

var cheapScalarKinds = []string{"string", "string", "string", "int", "int32", "int64", "int8", "uint", "uint8", "uint32", "float64", "float32", "bool"}

// maybeNamed turns a scalar type descriptor into its named (defined) variant
// now and then (generated code is full of named scalar types, e.g. enums).
func maybeNamed(t *rapid.T, ty desc.T) desc.T {
	if _, ok := lib.NamedScalars[ty.K]; ok && ty.Name == "" && rapid.IntRange(0, 4).Draw(t, "namedScalar") == 0 {
		ty.Name = "My"
		if _, ok := desc.StdNamed[ty.K]; ok && rapid.IntRange(0, 2).Draw(t, "stdNamed") == 1 {
			ty.Name = "std" // a defined scalar type of the standard library (time.Duration, time.Month): scalars like any other
		}
	}
	return ty
}

// maybeNamedDeep applies maybeNamed to a scalar type or to the element type of
// a slice / array of scalars.
func maybeNamedDeep(t *rapid.T, ty desc.T) desc.T {
	if (ty.K == "slice" || ty.K == "array") && ty.Elem != nil && ty.Elem.Elem == nil {
		e := maybeNamed(t, *ty.Elem)
		ty.Elem = &e
		return ty
	}
	if ty.Elem == nil && ty.K != "struct" {
		return maybeNamed(t, ty)
	}
	return ty
}

// finishScalar applies the cross-cutting choices of every scalar generator:
// named (defined) types and handing the argument over through a pointer.
func finishScalar(t *rapid.T, c *ScalarCase) {
	c.T = maybeNamedDeep(t, c.T)
	c.ViaPtr = rapid.IntRange(0, 5).Draw(t, "viaPtr") == 0
	c.LateRule = rapid.IntRange(0, 7).Draw(t, "lateRule") == 0
	if c.Carrier == "url" || c.Carrier == "urlenc" {
		genAgain(t, c)
		if rapid.IntRange(0, 3).Draw(t, "oddSegment") == 2 {
			seg := rapid.SampledFrom(oddSegments).Draw(t, "segment")
			at := rapid.IntRange(0, len(c.Others)).Draw(t, "segmentAt")
			c.Others = append(c.Others[:at:at], append([][2]string{seg}, c.Others[at:]...)...)
			if at < c.Pos || rapid.Bool().Draw(t, "segmentFirst") {
				c.Pos++ // (keep our parameter behind the odd segment more often than not)
			}
		}
	}
	if c.Carrier == "rm" && rapid.IntRange(0, 2).Draw(t, "underTag") == 0 {
		// the field has a declared rule (a few fixed texts: every text is a new synthesised type) that the call's rule map replaces
		c.Under = rapid.SampledFrom(underTags).Draw(t, "underRule")
	}
	c.Plus = rapid.Bool().Draw(t, "plusForBlank")
	c.Bare = rapid.Bool().Draw(t, "bareWhenEmpty")
	if rapid.IntRange(0, 3).Draw(t, "otherKey") == 2 {
		// map / url carriers: our entry under another name, now and then next to an entry whose name
		// differs by a suffix or the case only (and which no rule mentions)
		pair := rapid.SampledFrom(scalarKeys).Draw(t, "key")
		c.Key = pair[0]
		if rapid.Bool().Draw(t, "nearEntry") {
			c.Near = pair[1]
		}
	}
	c.Lead = rapid.SampledFrom([]string{"", "", "", "time", "time", "unexported", "plain", "all", "", "", "wide", "sub", "psub"}).Draw(t, "leadFields")
	if c.Lead == "wide" && c.Carrier != "rm" && rapid.IntRange(0, 7).Draw(t, "wideWithTag") != 3 {
		// (a struct type whose tag holds the rule text is a new type for every case, and synthesised types are never
		// released: a 261-field type per case costs a thorough-tier process gigabytes - measured 4.2 GB per shard -
		// so next to a tag the wide lead is kept for one case in eight; the rm carrier's type carries no rule text)
		c.Lead = "plain"
	}
}

// underTags: declared rules below a rule map (ScalarCase.Under): extension rules only, a demand, both.
var underTags = []string{"to=2~10", "ge=5|under msg", "required|under msg", "phone,required", "in=(zz)", "noeq=77777"}

// genAgain: now and then our URL parameter occurs more than once.
func genAgain(t *rapid.T, c *ScalarCase) {
	if c.Missing || c.T.K != "string" || c.T.Name != "" || strings.Contains(strings.Join(c.Rules, ","), "either") || strings.Contains(strings.Join(c.Rules, ","), "botheq") {
		return
	}
	if rapid.IntRange(0, 4).Draw(t, "again") != 2 {
		return
	}
	for i := rapid.IntRange(1, 2).Draw(t, "againN"); i > 0; i-- {
		c.Again = append(c.Again, rapid.SampledFrom([]string{"", "zz", "12", "ok"}).Draw(t, "againVal"))
	}
}

func (g *structGen) scalarField(name string) (desc.F, desc.V) {
	kind := rapid.SampledFrom(g.scalarKinds).Draw(g.t, "kind")
	v := genScalar(g.t, kind, "val", true)
	f := desc.F{Name: name, T: maybeNamed(g.t, desc.Scalar(kind))}
	if r := g.leafRules(kind, v); r != "" || rapid.IntRange(0, 5).Draw(g.t, "emptyTag") == 0 {
		f.Tags = map[string]string{g.tag: r}
	}
	g.addExtraTags(&f, kind, v)
	return f, v
}

func (g *structGen) sliceField(name string) (desc.F, desc.V) {
	ek := rapid.SampledFrom([]string{"int", "string"}).Draw(g.t, "sliceElem")
	n := rapid.IntRange(-1, 4).Draw(g.t, "sliceLen")
	v := desc.V{Nil: n < 0}
	for i := 0; i < n; i++ {
		v.E = append(v.E, genScalar(g.t, ek, "elem", true))
	}
	if rapid.IntRange(0, 9).Draw(g.t, "dozens") == 6 {
		v = dozens(g.t, ek)
	}
	if n > 0 && rapid.IntRange(0, 39).Draw(g.t, "bulk") == 23 {
		// a payload: ten thousand and more elements (counters and buffers inside the walker see them all)
		if rapid.Bool().Draw(g.t, "bulkBytes") {
			ek = "uint8"
			v.E = []desc.V{{U: 0xe6}, {U: 0xb5}, {U: 0x8b}}
		}
		unit := v.E
		for total := rapid.SampledFrom([]int{10001, 12000, 16384, 20000}).Draw(g.t, "bulkLen"); len(v.E) < total; {
			v.E = append(v.E, unit...)
		}
		genFlags.bulk = true
	}
	f := desc.F{Name: name, T: desc.Slice(desc.Scalar(ek))}
	if r := g.leafRules("slice", v); r != "" {
		f.Tags = map[string]string{g.tag: r}
	}
	if len(g.containerMarks) > 0 && rapid.IntRange(0, 2).Draw(g.t, "markedScalarSlice") == 0 {
		// the markers of nested validation on a collection of scalars: its elements are passed over
		mark := rapid.SampledFrom(g.containerMarks).Draw(g.t, "sliceMark")
		if mark == "-" || mark == "" {
			// (the "no marker" choice of the container fields)
		} else if f.Tags == nil {
			f.Tags = map[string]string{g.tag: mark}
		} else if !strings.Contains(f.Tags[g.tag], "required") && !strings.Contains(f.Tags[g.tag], "exist") {
			f.Tags[g.tag] = mark + "," + f.Tags[g.tag]
		}
	}
	g.addExtraTags(&f, "slice", v)
	return f, v
}

// dozens: a slice of 33..70 pairwise distinct elements in descending order (whoever sorts,
// deduplicates or truncates what the caller handed in changes it visibly).
func dozens(t *rapid.T, ek string) desc.V {
	n := rapid.IntRange(33, 70).Draw(t, "dozensLen")
	v := desc.V{}
	for i := 0; i < n; i++ {
		if ek == "string" {
			v.E = append(v.E, desc.Str(fmt.Sprintf("s%02d", n-i)))
		} else {
			v.E = append(v.E, desc.V{I: int64(n - i)})
		}
	}
	ev.Class("slice of 33-70 distinct elements in descending order")
	return v
}

// genStruct draws a struct type and a value for it.
func (g *structGen) genStruct(depth int) (desc.T, desc.V) {
	if depth == 0 {
		mapKeyStyle = rapid.SampledFrom([]int{0, 0, 0, 0, 1, 2, 3}).Draw(g.t, "mapKeyStyle")
	}
	lo := 0
	if g.maxField > len(fieldNames) {
		lo = g.maxField - 3 // a wide type is meant to be wide
	}
	n := rapid.IntRange(lo, g.maxField).Draw(g.t, "nFields")
	ty := desc.T{K: "struct"}
	val := desc.V{}
	for i := 0; i < n; i++ {
		name := "W" + strconv.Itoa(i)
		if i < len(fieldNames) {
			name = fieldNames[i]
		}
		var f desc.F
		var v desc.V
		c := rapid.IntRange(0, 11).Draw(g.t, "fieldClass")
		switch {
		case c <= 5 || depth >= g.maxDepth:
			f, v = g.scalarField(name)
		case c == 6:
			f, v = g.sliceField(name)
		default:
			f, v = g.containerField(name, depth)
		}
		if g.unexported && rapid.IntRange(0, 7).Draw(g.t, "unexported") == 0 {
			f.Name = strings.ToLower(f.Name) + "x"
			if rapid.IntRange(0, 3).Draw(g.t, "nonASCIIUnexp") == 0 {
				f.Name = rapid.SampledFrom([]string{"é", "ω", "д", "ñ", "ǅ", "ǲ", "ǅ"}).Draw(g.t, "unexpPrefix") + f.Name // unexported, first letter outside ASCII (ǅ, ǲ: TITLE case is not upper case)
			}
		} else if rapid.IntRange(0, 15).Draw(g.t, "xxxName") == 9 {
			f.Name = "XXX_" + strings.ToLower(f.Name) // exported, named like the bookkeeping fields of generated code
		} else if rapid.IntRange(0, 11).Draw(g.t, "nonASCIIName") == 0 {
			f.Name = []string{"É", "Ω", "Д", "Ñ"}[i%4] + strings.ToLower(f.Name) // exported: Go's rule is "upper-case letter", not A-Z
		}
		ty.Fields = append(ty.Fields, f)
		val.E = append(val.E, v)
	}
	// a pointer field of the type of a by-value struct field declared before it (it may point at that sibling)
	for j := range ty.Fields {
		if ty.Fields[j].T.K == "struct" && !ty.Fields[j].Embedded && rapid.IntRange(0, 3).Draw(g.t, "siblingPtr") == 0 {
			mark := "required"
			if len(g.containerMarks) > 0 {
				mark = rapid.SampledFrom(g.containerMarks).Draw(g.t, "siblingMark")
			}
			f := desc.F{Name: "Sib" + strconv.Itoa(j), T: desc.Ptr(ty.Fields[j].T)}
			if mark != "-" && mark != "" {
				f.Tags = map[string]string{g.tag: mark}
			}
			ty.Fields = append(ty.Fields, f)
			val.E = append(val.E, desc.V{Interior: j + 1, E: []desc.V{val.E[j]}})
			break
		}
	}
	if g.withTime && rapid.IntRange(0, 5).Draw(g.t, "timeField") == 0 {
		ty.Fields = append(ty.Fields, desc.F{Name: "T9", T: desc.Scalar("time"), Tags: map[string]string{g.tag: "required"}})
		val.E = append(val.E, desc.V{I: int64(rapid.IntRange(0, 1).Draw(g.t, "timeVal")) * 1700000000})
	}
	return ty, val
}

// containerField draws a nested struct in one of the supported wrappers.
func (g *structGen) containerField(name string, depth int) (desc.F, desc.V) {
	shape := rapid.SampledFrom([]string{"struct", "ptr", "ptr", "slice", "sliceptr", "array", "map", "mapptr", "mapint", "ptrptr", "sliceptrptr", "mapptrptr", "arrayptrptr", "mapfloat", "maparr", "mapiface", "mapuint"}).Draw(g.t, "shape")
	inner, _ := g.genStruct(depth + 1)
	// values are drawn per element below, against the same inner type: rules of
	// the inner type were drawn relative to the first value only, which keeps
	// about half of the instances violated across elements.
	mkVal := func() desc.V {
		return g.genValueFor(inner, depth+1)
	}
	var ty desc.T
	var v desc.V
	switch shape {
	case "struct":
		ty = inner
		if rapid.IntRange(0, 4).Draw(g.t, "zeroStruct") == 0 {
			v = desc.V{}
		} else {
			v = mkVal()
		}
	case "ptr":
		ty = desc.Ptr(inner)
		if rapid.IntRange(0, 3).Draw(g.t, "nilPtr") == 0 {
			v = desc.V{Nil: true}
		} else {
			v = desc.V{E: []desc.V{mkVal()}}
		}
	case "ptrptr":
		ty = desc.Ptr(desc.Ptr(inner))
		switch rapid.IntRange(0, 3).Draw(g.t, "pp") {
		case 0:
			v = desc.V{Nil: true}
		case 1:
			v = desc.V{E: []desc.V{{Nil: true}}}
		default:
			v = desc.V{E: []desc.V{{E: []desc.V{mkVal()}}}}
		}
	case "slice", "sliceptr", "array":
		n := rapid.IntRange(-1, 3).Draw(g.t, "nElems")
		elem := inner
		if shape == "sliceptr" {
			elem = desc.Ptr(inner)
		}
		if shape == "array" {
			ty = desc.Array(2, elem)
			n = 2
		} else {
			ty = desc.Slice(elem)
		}
		v = desc.V{Nil: n < 0}
		for i := 0; i < n; i++ {
			if shape == "sliceptr" {
				if rapid.IntRange(0, 3).Draw(g.t, "nilElem") == 0 {
					v.E = append(v.E, desc.V{Nil: true})
				} else {
					v.E = append(v.E, desc.V{E: []desc.V{mkVal()}})
				}
			} else if shape == "array" && rapid.IntRange(0, 2).Draw(g.t, "zeroElem") == 0 {
				v.E = append(v.E, desc.V{})
			} else {
				v.E = append(v.E, mkVal())
			}
		}
	case "sliceptrptr", "mapptrptr", "arrayptrptr":
		// collections whose elements are pointers to pointers to structs
		pp := desc.Ptr(desc.Ptr(inner))
		switch shape {
		case "sliceptrptr":
			ty = desc.Slice(pp)
		case "arrayptrptr":
			ty = desc.Array(2, pp)
		default:
			ty = desc.Map(desc.Scalar("string"), pp)
		}
		n := rapid.IntRange(1, 3).Draw(g.t, "nPP")
		if shape == "arrayptrptr" {
			n = 2
		}
		for i := 0; i < n; i++ {
			var e desc.V
			switch rapid.IntRange(0, 4).Draw(g.t, "ppElem") {
			case 0:
				e = desc.V{Nil: true}
			case 1:
				e = desc.V{E: []desc.V{{Nil: true}}}
			default:
				e = desc.V{E: []desc.V{{E: []desc.V{mkVal()}}}}
			}
			v.E = append(v.E, e)
			if shape == "mapptrptr" {
				v.K = append(v.K, desc.Str(mapKeyName(i)))
			}
		}
	default: // maps
		n := rapid.IntRange(-1, 3).Draw(g.t, "nEntries")
		elem := inner
		key := desc.Scalar("string")
		if shape == "mapptr" {
			elem = desc.Ptr(inner)
		}
		if shape == "mapint" {
			key = desc.Scalar("int")
		}
		if shape == "mapuint" {
			key = desc.Scalar("uint64")
		}
		if shape == "mapfloat" {
			key = desc.Scalar("float64") // float keys: one of them may be NaN (a legal key that cannot be looked up)
		}
		if shape == "maparr" {
			key = desc.Array(2, desc.Scalar("int")) // unnamed composite key types: rendered as fmt does
		}
		if shape == "mapiface" {
			key = desc.Scalar("iface")
		}
		ty = desc.Map(key, elem)
		v = desc.V{Nil: n < 0}
		for i := 0; i < n; i++ {
			if shape == "mapint" {
				v.K = append(v.K, desc.V{I: int64(i*7 + 1)})
			} else if shape == "mapuint" {
				v.K = append(v.K, []desc.V{{U: math.MaxUint64}, {U: 1 << 63}, {U: 7}}[i%3]) // keys beyond the signed range
			} else if shape == "mapfloat" {
				v.K = append(v.K, []desc.V{{F: 1.5}, {NaN: true}, {F: -2}}[i%3])
			} else if shape == "maparr" || shape == "mapiface" {
				v.K = append(v.K, oddKey(key, i))
			} else {
				v.K = append(v.K, desc.Str(mapKeyName(i)))
			}
			if shape == "mapptr" {
				if rapid.IntRange(0, 3).Draw(g.t, "nilEntry") == 0 {
					v.E = append(v.E, desc.V{Nil: true})
				} else {
					v.E = append(v.E, desc.V{E: []desc.V{mkVal()}})
				}
			} else {
				v.E = append(v.E, mkVal())
			}
		}
	}
	f := desc.F{Name: name, T: ty}
	if mark := rapid.SampledFrom(g.containerMarks).Draw(g.t, "mark"); mark != "-" {
		f.Tags = map[string]string{g.tag: mark}
	}
	for _, et := range g.extraTags {
		if mark := rapid.SampledFrom(g.containerMarks).Draw(g.t, "markExtra"); mark != "-" {
			if f.Tags == nil {
				f.Tags = map[string]string{}
			}
			f.Tags[et] = mark
		}
	}
	return f, v
}

// oddKey is the i-th key of a map with an array or interface key type.
func oddKey(key desc.T, i int) desc.V {
	if key.K == "array" {
		return desc.V{E: []desc.V{{I: int64(i)}, {I: int64(i * 3)}}}
	}
	if i%2 == 0 {
		dt := desc.Scalar("string")
		return desc.V{DT: &dt, E: []desc.V{desc.Str(fmt.Sprintf("ik%d", i))}}
	}
	dt := desc.Scalar("int")
	return desc.V{DT: &dt, E: []desc.V{{I: int64(i + 40)}}}
}

// genValueFor draws a value for an already synthesised struct type (used for
// the 2nd.. elements of collections, whose type is fixed by the first).
func (g *structGen) genValueFor(ty desc.T, depth int) desc.V {
	switch ty.K {
	case "struct":
		v := desc.V{}
		for i, f := range ty.Fields {
			fv := g.genValueFor(f.T, depth+1)
			if f.T.K == "ptr" && !fv.Nil {
				for j := 0; j < i; j++ {
					if reflect.DeepEqual(ty.Fields[j].T, *f.T.Elem) && rapid.Bool().Draw(g.t, "vInterior") {
						fv.Interior = j + 1 // points at the by-value sibling declared earlier
						genFlags.interior = true
						break
					}
				}
			}
			v.E = append(v.E, fv)
		}
		return v
	case "ptr":
		if rapid.IntRange(0, 3).Draw(g.t, "vNil") == 0 {
			return desc.V{Nil: true}
		}
		pv := desc.V{E: []desc.V{g.genValueFor(*ty.Elem, depth)}}
		if rapid.IntRange(0, 5).Draw(g.t, "vShare") == 0 {
			pv.Share = rapid.IntRange(1, 3).Draw(g.t, "vShareIdx") // alias an earlier pointer of this type, if there is one
		}
		return pv
	case "slice", "array":
		n := rapid.IntRange(-1, 2).Draw(g.t, "vLen")
		if ty.K == "array" {
			n = ty.Len
		}
		v := desc.V{Nil: n < 0}
		for i := 0; i < n; i++ {
			v.E = append(v.E, g.genValueFor(*ty.Elem, depth+1))
		}
		if ty.K == "slice" && n > 0 && ty.Elem.Elem == nil && ty.Elem.K != "struct" && ty.Elem.K != "named" && rapid.IntRange(0, 39).Draw(g.t, "vBulk") == 17 {
			// a payload: ten thousand and more scalar elements
			unit := v.E
			for total := rapid.SampledFrom([]int{10001, 12000, 16384, 20000}).Draw(g.t, "vBulkLen"); len(v.E) < total; {
				v.E = append(v.E, unit...)
			}
			genFlags.bulk = true
		}
		return v
	case "map":
		n := rapid.IntRange(-1, 2).Draw(g.t, "vEntries")
		v := desc.V{Nil: n < 0}
		for i := 0; i < n; i++ {
			if ty.Key.K == "string" {
				v.K = append(v.K, desc.Str(mapKeyName(i)))
			} else if ty.Key.K == "float64" {
				v.K = append(v.K, []desc.V{{F: 1.5}, {NaN: true}, {F: -2}}[i%3])
			} else if ty.Key.K == "array" || ty.Key.K == "iface" {
				v.K = append(v.K, oddKey(*ty.Key, i))
			} else if ty.Key.K == "uint64" {
				v.K = append(v.K, []desc.V{{U: math.MaxUint64}, {U: 1 << 63}, {U: 7}}[i%3])
			} else {
				v.K = append(v.K, desc.V{I: int64(i*7 + 1)})
			}
			v.E = append(v.E, g.genValueFor(*ty.Elem, depth+1))
		}
		return v
	case "time":
		return desc.V{I: int64(rapid.IntRange(0, 1).Draw(g.t, "vTime")) * 1700000000}
	}
	return genScalar(g.t, ty.K, "v", true)
}

// ---- named-type mode: values of the library types, rules from generated RMs ----

// genValueRT draws a value descriptor for any reflect type of the library
// (recursion bounded by maxDepth; deeper pointers are nil, collections empty).
func genValueRT(t *rapid.T, rt reflect.Type, depth, maxDepth int) desc.V {
	switch rt.Kind() {
	case reflect.Struct:
		if rt == reflect.TypeOf(time.Time{}) {
			return desc.V{I: int64(rapid.IntRange(0, 1).Draw(t, "time")) * 1700000000}
		}
		v := desc.V{}
		if depth > 0 && rapid.IntRange(0, 7).Draw(t, "zeroStruct") == 0 {
			return zeroDesc(rt)
		}
		for i := 0; i < rt.NumField(); i++ {
			v.E = append(v.E, genValueRT(t, rt.Field(i).Type, depth+1, maxDepth))
		}
		return v
	case reflect.Ptr:
		if depth >= maxDepth || rapid.IntRange(0, 3).Draw(t, "nil") == 0 {
			return desc.V{Nil: true}
		}
		pv := desc.V{E: []desc.V{genValueRT(t, rt.Elem(), depth, maxDepth)}}
		if rapid.IntRange(0, 5).Draw(t, "share") == 0 {
			pv.Share = rapid.IntRange(1, 3).Draw(t, "shareIdx") // alias an earlier pointer of this type, if there is one
		}
		return pv
	case reflect.Slice:
		n := rapid.SampledFrom([]int{-1, -1, 0, 1, 1, 2, 2, 3}).Draw(t, "len")
		if depth >= maxDepth && rt.Elem().Kind() != reflect.String && rt.Elem().Kind() != reflect.Int {
			n = rapid.IntRange(-1, 0).Draw(t, "lenDeep")
		}
		v := desc.V{Nil: n < 0}
		for i := 0; i < n; i++ {
			v.E = append(v.E, genValueRT(t, rt.Elem(), depth+1, maxDepth))
		}
		return v
	case reflect.Array:
		v := desc.V{}
		for i := 0; i < rt.Len(); i++ {
			v.E = append(v.E, genValueRT(t, rt.Elem(), depth+1, maxDepth))
		}
		return v
	case reflect.Map:
		n := rapid.IntRange(-1, 3).Draw(t, "entries")
		if depth >= maxDepth {
			n = rapid.IntRange(-1, 0).Draw(t, "entriesDeep")
		}
		v := desc.V{Nil: n < 0}
		for i := 0; i < n; i++ {
			if rt.Key().Kind() == reflect.String {
				v.K = append(v.K, desc.Str(mapKeyName(i)))
			} else {
				v.K = append(v.K, desc.V{I: int64(i*7 + 1)})
			}
			v.E = append(v.E, genValueRT(t, rt.Elem(), depth+1, maxDepth))
		}
		return v
	case reflect.String:
		return desc.Str(rapid.SampledFrom([]string{"", "", "a", "ab", "abc", "abcd", "测试", "测试测", "x", "y", "12"}).Draw(t, "s"))
	case reflect.Bool:
		return desc.V{B: rapid.Bool().Draw(t, "b")}
	case reflect.Int, reflect.Int8, reflect.Int16, reflect.Int32, reflect.Int64:
		return desc.V{I: int64(rapid.IntRange(-2, 5).Draw(t, "i"))}
	case reflect.Uint, reflect.Uint8, reflect.Uint16, reflect.Uint32, reflect.Uint64:
		return desc.V{U: uint64(rapid.IntRange(0, 5).Draw(t, "u"))}
	case reflect.Float32, reflect.Float64:
		return desc.V{F: rapid.SampledFrom([]float64{0, 0.5, 1, 1.5, 2, 3, -1}).Draw(t, "f")}
	}
	return desc.V{Nil: true}
}

func zeroDesc(rt reflect.Type) desc.V {
	v := desc.V{}
	if rt.Kind() == reflect.Struct && rt != reflect.TypeOf(time.Time{}) {
		for i := 0; i < rt.NumField(); i++ {
			ft := rt.Field(i).Type
			switch ft.Kind() {
			case reflect.Ptr, reflect.Slice, reflect.Map:
				v.E = append(v.E, desc.V{Nil: true})
			default:
				v.E = append(v.E, zeroDesc(ft))
			}
		}
	}
	if rt.Kind() == reflect.Array {
		for i := 0; i < rt.Len(); i++ {
			v.E = append(v.E, zeroDesc(rt.Elem()))
		}
	}
	return v
}

// scalarRulePool: rule items with small bounds, for values drawn from the small
// pools of genValueRT (about half of them violated).
func genSmallRules(t *rapid.T, kind reflect.Kind, mg *msgGen, extra []string) string {
	n := rapid.IntRange(1, 3).Draw(t, "nRules")
	var items []string
	for i := 0; i < n; i++ {
		choices := []string{"size", "size", "size", "required", "in"}
		if kind == reflect.String {
			choices = append(choices, "prefix", "int")
		}
		choices = append(choices, extra...)
		switch c := rapid.SampledFrom(choices).Draw(t, "rule"); c {
		case "size":
			items = append(items, genSizeRule(t, int64(rapid.IntRange(0, 3).Draw(t, "m")), "sz")+mg.next(t))
		case "required":
			items = append(items, "required"+mg.next(t))
		case "in":
			items = append(items, "in=(a/ab/1/2/测试)"+mg.next(t))
		case "prefix":
			items = append(items, "prefix=a"+mg.next(t))
		case "int":
			items = append(items, "int"+mg.next(t))
		default:
			items = append(items, c) // custom / unknown names come without message
		}
	}
	return strings.Join(items, ",")
}

func isContainerType(ft reflect.Type) bool {
	for ft.Kind() == reflect.Ptr {
		ft = ft.Elem()
	}
	switch ft.Kind() {
	case reflect.Struct, reflect.Slice, reflect.Array, reflect.Map:
		return ft.Kind() == reflect.Struct || ft.Elem().Kind() != reflect.String && ft.Elem().Kind() != reflect.Int
	}
	return false
}

// genRMFor draws a rule set for one library type.
func genRMFor(t *rapid.T, rt reflect.Type, mg *msgGen, marks []string, extra []string, density int) map[string]string {
	rm := map[string]string{}
	for i := 0; i < rt.NumField(); i++ {
		f := rt.Field(i)
		if isContainerType(f.Type) || f.Type == reflect.TypeOf(time.Time{}) || f.PkgPath != "" {
			if m := rapid.SampledFrom(marks).Draw(t, "mark"+f.Name); m != "-" {
				rm[f.Name] = m
			}
			continue
		}
		if strings.HasPrefix(f.Name, "G") { // group member fields get rules only from the group generators
			continue
		}
		if rapid.IntRange(0, 9).Draw(t, "hasRule"+f.Name) < density {
			k := f.Type.Kind()
			if k == reflect.Slice {
				rm[f.Name] = rapid.SampledFrom([]string{"required", "to=1~2", "unique", "ge=2", "lt=2"}).Draw(t, "sliceRule") + mg.next(t)
				continue
			}
			rm[f.Name] = genSmallRules(t, k, mg, extra)
		}
	}
	return rm
}
