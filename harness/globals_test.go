package harness

// registerGlobals registers the process-wide custom rules some checks use.
// It runs before any validation call (C11: registration happens-before the
// goroutines start).
func registerGlobals() {}
