package harness

import (
	"os"

	"gitee.com/xuesongtao/protoc-go-valid/valid"
)

// registerGlobals registers the process-wide custom rules some checks use.
// It runs before any validation call (C11: registration happens-before the
// goroutines start).
func registerGlobals() {
	for _, n := range []string{"gcustom1", "gcustom2", "shadowed"} {
		valid.SetCustomerValidFn(n, customFn("global", n))
		globalFnNames[n] = true
	}
	// one global function shadows a built-in, only in the processes of the
	// properties that are about name resolution (nobody else uses "dir" there)
	switch os.Getenv("VERIF_PROP") {
	case "C16":
		valid.SetCustomerValidFn("dir", customFn("global", "dir"))
		globalFnNames["dir"] = true
		// ... and one shadows a rule the struct validator implements itself
		valid.SetCustomerValidFn("botheq", customFn("global", "botheq"))
		globalFnNames["botheq"] = true
	}
}
