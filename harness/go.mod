module verifharness

go 1.23

toolchain go1.23.5

require (
	gitee.com/xuesongtao/protoc-go-valid v0.0.0
	github.com/anishathalye/porcupine v1.3.0
	pgregory.net/rapid v1.3.0
)

replace gitee.com/xuesongtao/protoc-go-valid => /repo
