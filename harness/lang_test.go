package harness

import (
	"fmt"
	"strings"
	"unicode/utf8"

	"pgregory.net/rapid"
)

// ---- generators of members and near-misses of the rule languages (C05, C15, C18) ----

var hostileRunes = []rune("0123456789abcxyzABCXYZ_测试验０１２３-/.:_~()=|$#@ ,'\t\n\x00+é😀")

func digits(t *rapid.T, n int, label string) string {
	var b strings.Builder
	for i := 0; i < n; i++ {
		b.WriteByte(byte('0' + rapid.IntRange(0, 9).Draw(t, label)))
	}
	return b.String()
}

func word(t *rapid.T, label string) string {
	n := rapid.IntRange(1, 4).Draw(t, label+"Len")
	var b strings.Builder
	for i := 0; i < n; i++ {
		b.WriteRune(rapid.SampledFrom([]rune("abzAZ09_")).Draw(t, label))
	}
	return b.String()
}

// editOnce applies one insert / delete / replace / transpose with a hostile character.
func editOnce(t *rapid.T, s string) string {
	r := []rune(s)
	h := rapid.SampledFrom(hostileRunes).Draw(t, "editRune")
	if len(r) == 0 {
		return string(h)
	}
	pos := rapid.IntRange(0, len(r)-1).Draw(t, "editPos")
	switch rapid.IntRange(0, 3).Draw(t, "editOp") {
	case 0: // insert (also at the very end)
		at := rapid.IntRange(0, len(r)).Draw(t, "insAt")
		out := append([]rune{}, r[:at]...)
		out = append(out, h)
		return string(append(out, r[at:]...))
	case 1: // delete
		return string(append(append([]rune{}, r[:pos]...), r[pos+1:]...))
	case 2: // replace
		out := append([]rune{}, r...)
		out[pos] = h
		return string(out)
	default: // transpose
		if pos+1 < len(r) {
			out := append([]rune{}, r...)
			out[pos], out[pos+1] = out[pos+1], out[pos]
			return string(out)
		}
		return string(append(r, h))
	}
}

func randomHostile(t *rapid.T) string {
	n := rapid.IntRange(1, 12).Draw(t, "hostileLen")
	var b strings.Builder
	for i := 0; i < n; i++ {
		b.WriteRune(rapid.SampledFrom(hostileRunes).Draw(t, "hostile"))
	}
	return b.String()
}

func genPhone(t *rapid.T) string {
	return "1" + string(byte('0'+rapid.IntRange(3, 9).Draw(t, "p2"))) + digits(t, 9, "pd")
}

func genEmail(t *rapid.T) string {
	var b strings.Builder
	b.WriteString(word(t, "lw"))
	for i := rapid.IntRange(0, 2).Draw(t, "lparts"); i > 0; i-- {
		b.WriteByte(rapid.SampledFrom([]byte("-+.")).Draw(t, "lsep"))
		b.WriteString(word(t, "lw"))
	}
	b.WriteByte('@')
	b.WriteString(word(t, "dw"))
	for i := rapid.IntRange(0, 2).Draw(t, "dparts"); i > 0; i-- {
		b.WriteByte(rapid.SampledFrom([]byte("-.")).Draw(t, "dsep"))
		b.WriteString(word(t, "dw"))
	}
	b.WriteByte('.')
	b.WriteString(word(t, "tw"))
	for i := rapid.IntRange(0, 1).Draw(t, "tparts"); i > 0; i-- {
		b.WriteByte(rapid.SampledFrom([]byte("-.")).Draw(t, "tsep"))
		b.WriteString(word(t, "tw"))
	}
	return b.String()
}

func genIDCard(t *rapid.T) string {
	switch rapid.IntRange(0, 2).Draw(t, "idForm") {
	case 0:
		return digits(t, 15, "id")
	case 1:
		return digits(t, 18, "id")
	}
	return digits(t, 17, "id") + rapid.SampledFrom([]string{"X", "x"}).Draw(t, "idX")
}

func genIPv4(t *rapid.T) string {
	var p []string
	for i := 0; i < 4; i++ {
		p = append(p, fmt.Sprint(rapid.SampledFrom([]int{0, 1, 9, 10, 99, 100, 127, 199, 200, 249, 250, 255, 192, 168}).Draw(t, "octet")))
	}
	return strings.Join(p, ".")
}

func genIPv6(t *rapid.T) string {
	grp := func() string {
		return rapid.SampledFrom([]string{"0", "1", "a", "ff", "abc", "ABCD", "0db8", "2001", "ffff", "fe80", "00a"}).Draw(t, "grp")
	}
	n := 8
	ell := rapid.IntRange(-1, 7).Draw(t, "ellipsisAt")
	var head, tail []string
	if ell >= 0 {
		n = rapid.IntRange(0, 7).Draw(t, "ngroups")
		nh := ell
		if nh > n {
			nh = n
		}
		for i := 0; i < nh; i++ {
			head = append(head, grp())
		}
		for i := nh; i < n; i++ {
			tail = append(tail, grp())
		}
		if rapid.IntRange(0, 4).Draw(t, "v4tail") == 0 && len(head)+len(tail) <= 5 {
			tail = append(tail, genIPv4(t))
		}
		return strings.Join(head, ":") + "::" + strings.Join(tail, ":")
	}
	var g []string
	if rapid.IntRange(0, 5).Draw(t, "v4tailFull") == 0 {
		for i := 0; i < 6; i++ {
			g = append(g, grp())
		}
		g = append(g, genIPv4(t))
	} else {
		for i := 0; i < 8; i++ {
			g = append(g, grp())
		}
	}
	return strings.Join(g, ":")
}

// genDateLike builds a member of the date-like language with the given
// separators; nfields 1,2,3,6.
// dstGaps: wall-clock instants that do not exist in some time zone (the clocks were put forward
// over them, in Samoa a whole day was skipped) - ordinary members of the date languages, which
// know no time zone.  The zones are the ones C05 runs under (c05Zones).
var dstGaps = [][6]int{
	{2022, 3, 13, 2, 30, 0}, {2024, 3, 10, 2, 0, 0}, // America/New_York
	{2018, 11, 4, 0, 0, 0}, {2017, 10, 15, 0, 30, 59}, // America/Sao_Paulo (midnight: the date alone falls into the gap)
	{2011, 12, 30, 0, 0, 0}, {2011, 12, 30, 12, 0, 0}, // Pacific/Apia
	{2023, 3, 26, 2, 30, 0}, // Europe/Berlin
	{2023, 4, 28, 0, 0, 0},  // Africa/Cairo
	{2023, 10, 1, 2, 15, 0}, // Australia/Lord_Howe (half-hour shift)
}

var c05Zones = []string{"America/New_York", "America/Sao_Paulo", "Pacific/Apia", "Europe/Berlin", "Africa/Cairo", "Australia/Lord_Howe", "Asia/Shanghai"}

func genDateLike(t *rapid.T, nfields int, seps [3]string) string {
	if nfields >= 3 && rapid.IntRange(0, 7).Draw(t, "dstGap") == 0 {
		g := rapid.SampledFrom(dstGaps).Draw(t, "gap")
		out := fmt.Sprintf("%04d%s%02d%s%02d", g[0], seps[0], g[1], seps[0], g[2])
		if nfields >= 6 {
			out += seps[1] + fmt.Sprintf("%02d%s%02d%s%02d", g[3], seps[2], g[4], seps[2], g[5])
		}
		return out
	}
	y := rapid.SampledFrom([]int{1996, 2000, 2023, 2024, 1900, 2100, 1, 9999, 0}).Draw(t, "year")
	m := rapid.IntRange(1, 12).Draw(t, "month")
	dim := []int{31, 28, 31, 30, 31, 30, 31, 31, 30, 31, 30, 31}[m-1]
	if m == 2 && y%4 == 0 && (y%100 != 0 || y%400 == 0) {
		dim = 29
	}
	d := rapid.SampledFrom([]int{1, 2, 15, 28, dim, dim}).Draw(t, "day")
	if d > dim {
		d = dim
	}
	h, mi, s := rapid.SampledFrom([]int{0, 1, 12, 23}).Draw(t, "hour"), rapid.SampledFrom([]int{0, 30, 59}).Draw(t, "min"), rapid.SampledFrom([]int{0, 5, 59}).Draw(t, "sec")
	out := fmt.Sprintf("%04d", y)
	if nfields >= 2 {
		out += seps[0] + fmt.Sprintf("%02d", m)
	}
	if nfields >= 3 {
		out += seps[0] + fmt.Sprintf("%02d", d)
	}
	if nfields >= 6 {
		out += seps[1] + fmt.Sprintf("%02d%s%02d%s%02d", h, seps[2], mi, seps[2], s)
	}
	return out
}

// dateMutations are the directed near-misses of the date-like languages.
func mutateDate(t *rapid.T, member string, nfields int, seps [3]string) string {
	y, m, d, h, mi, s := "2023", "06", "15", "10", "30", "20"
	build := func() string {
		out := y
		if nfields >= 2 {
			out += seps[0] + m
		}
		if nfields >= 3 {
			out += seps[0] + d
		}
		if nfields >= 6 {
			out += seps[1] + h + seps[2] + mi + seps[2] + s
		}
		return out
	}
	// length-preserving combinations: an unpadded field compensated by one extra
	// character elsewhere (two leniencies of a lenient parser can cancel out)
	unpadAndPad := func(pad string, where int) string {
		fields := []*string{&m, &d, &h, &mi, &s}
		avail := map[int]int{2: 1, 3: 2, 6: 5}[nfields]
		if avail == 0 {
			return " " + member
		}
		f := fields[rapid.IntRange(0, avail-1).Draw(t, "unpadField")]
		*f = rapid.SampledFrom([]string{"1", "9", "0"}).Draw(t, "oneDigit")
		out := build()
		switch where {
		case 0: // in front of the unpadded field's position: anywhere in the text
			at := rapid.IntRange(0, len(out)).Draw(t, "padAt")
			return out[:at] + pad + out[at:]
		case 1:
			return pad + out
		default:
			return out + pad
		}
	}
	switch rapid.IntRange(0, 21).Draw(t, "dateMut") {
	case 16:
		return unpadAndPad(" ", 0)
	case 17:
		sep := seps[rapid.IntRange(0, 2).Draw(t, "padSep")]
		if sep == "" {
			sep = "0"
		}
		return unpadAndPad(sep, 0)
	case 18:
		return unpadAndPad(rapid.SampledFrom([]string{" ", "0", "\t"}).Draw(t, "padCh"), 1)
	case 19:
		return unpadAndPad(rapid.SampledFrom([]string{" ", "0", "Z"}).Draw(t, "padCh"), 2)
	case 20:
		// one digit of the member replaced by a blank
		b := []byte(member)
		var idx []int
		for i, ch := range b {
			if ch >= '0' && ch <= '9' {
				idx = append(idx, i)
			}
		}
		if len(idx) > 0 {
			b[idx[rapid.IntRange(0, len(idx)-1).Draw(t, "blankAt")]] = ' '
		}
		return string(b)
	case 21:
		return editOnce(t, editOnce(t, member))
	case 0:
		m = "00"
	case 1:
		m = "13"
	case 2:
		m, d = "04", "31"
	case 3:
		y, m, d = "2023", "02", "29"
	case 4:
		y, m, d = "2024", "02", "29" // leap year: a member again
	case 5:
		y, m, d = "1900", "02", "29" // century non-leap
	case 6:
		h = "24"
	case 7:
		mi = "60"
	case 8:
		s = "60"
	case 9:
		m = "6" // missing zero padding
	case 10:
		y = "23" // 2-digit year
	case 11:
		return member + rapid.SampledFrom([]string{".5", ",5", ".000", " ", "Z"}).Draw(t, "suffix") // fractional seconds / trailing text
	case 12:
		return " " + member
	case 13:
		if nfields >= 6 && seps[1] != "" {
			return strings.Replace(member, seps[1], seps[1]+seps[1], 1) // doubled date/time separator (a run of blanks)
		}
		d = "00"
	case 14:
		// mixed separators as in 2022/11-09
		other := "/"
		if seps[0] == "/" {
			other = "-"
		}
		if nfields >= 3 {
			return y + seps[0] + m + other + d + strings.TrimPrefix(build(), y+seps[0]+m+seps[0]+d)
		}
		return y + other + m
	default:
		d = "32"
	}
	return build()
}

var sepPool = []string{"-", "/", ".", "_", "", " ", ":", "~", "#", "@", "$"}

// genJSON draws a JSON document.
func genJSON(t *rapid.T, depth int) string {
	switch c := rapid.IntRange(0, 7).Draw(t, "jsonKind"); {
	case c == 0 && depth < 3:
		n := rapid.IntRange(0, 3).Draw(t, "objN")
		var parts []string
		for i := 0; i < n; i++ {
			parts = append(parts, fmt.Sprintf("%q:%s", word(t, "jk"), genJSON(t, depth+1)))
		}
		return "{" + strings.Join(parts, rapid.SampledFrom([]string{",", ", ", " ,\n"}).Draw(t, "jsep")) + "}"
	case c == 1 && depth < 3:
		n := rapid.IntRange(0, 3).Draw(t, "arrN")
		var parts []string
		for i := 0; i < n; i++ {
			parts = append(parts, genJSON(t, depth+1))
		}
		return "[" + strings.Join(parts, ",") + "]"
	case c == 2:
		return rapid.SampledFrom([]string{`"a"`, `""`, `"测试"`, `"a\nb"`, `"é"`, `"x y"`, `"\\"`, `"\ud800"`, `"\u0000"`, `"\/"`}).Draw(t, "jstr")
	case c == 3:
		return rapid.SampledFrom([]string{"0", "-0", "1", "-12", "1.5", "1e3", "1E-2", "0.001", "12345678901234567890",
			"1e999", "-1E+400", "1e-999", strings.Repeat("9", 400), "-" + strings.Repeat("7", 330) + ".5"}).Draw(t, "jnum") // (number literals beyond any machine type are numbers all the same)
	case c == 4:
		return rapid.SampledFrom([]string{"true", "false", "null"}).Draw(t, "jlit")
	}
	return rapid.SampledFrom([]string{`{"a":1}`, `[1,2]`, `{"a":{"b":[true,null]}}`, ` {"k" : "v"} `, "[]", "{}", `{"a":1,"a":2}`, `{"":0}`, `[1e999]`, `{"n":-1E+400}`}).Draw(t, "jdoc")
}

var jsonNearMisses = []string{`{"a":1,}`, `{a:1}`, `{'a':1}`, `[1,2`, `01`, `1.`, `.5`, `+1`, `"a`, `tru`, `{"a" 1}`, `[1 2]`, `{"a":1}{}`, "\"a\tb\"", `"\x"`, `nul`, `-`, `1e`, `[,]`, `{"a":}`}

func runeLen(s string) int { return utf8.RuneCountInString(s) }
