// Package lib is the fixed library of *named* skeleton types used where the
// type name matters (paths, per-type rule sets, recursion).  They carry no
// rules themselves except the multi-tag types; rules come from generated RMs.
package lib

import (
	"reflect"
	"strconv"
	"time"
)

// Leaf is a small struct with scalar fields of several kinds.
type Leaf struct {
	Name string
	S    string
	N    int
	U8   uint8
	F    float64
	G1   string
	G2   string
	G3   int
	G4   int
	Tags []string
}

// Mid nests Leaf in the usual ways.
type Mid struct {
	Name  string
	L     Leaf
	PL    *Leaf
	Ls    []Leaf
	PLs   []*Leaf
	ML    map[string]Leaf
	G1    string
	G2    string
	N     int
	Other Leaf // usually left unmarked
}

// Top nests Mid.
type Top struct {
	Name string
	M    Mid
	PM   *Mid
	Ms   []*Mid
	MM   map[string]*Mid
	L    Leaf
	N    int
}

// Emb is embedded into Tree.
type Emb struct {
	EName string
}

// Tree is recursive and uses every supported way of nesting.
type Tree struct {
	Name   string
	Val    Leaf
	PLeaf  *Leaf
	Left   *Tree
	Kids   []*Tree
	ByKey  map[string]*Tree
	ByNum  map[int]Leaf
	Arr    [2]Leaf
	PArr   [2]*Leaf
	PP     **Leaf
	T      time.Time
	PT     *time.Time
	hidden Leaf
	Emb
	Un     *Tree // usually left unmarked
	Leaves []Leaf
	St     Stamp // a struct type with methods (MarshalText, String): still a struct to descend into
	PSt    *Stamp
}

// Stamp is a struct type that implements encoding.TextMarshaler and
// fmt.Stringer with value receivers (many domain types do): it is an ordinary
// nested struct for the validator.
type Stamp struct {
	Label string
	N     int
}

func (s Stamp) MarshalText() ([]byte, error) { return []byte(s.Label), nil }
func (s Stamp) String() string               { return "stamp:" + s.Label }

// SetHidden fills the unexported field (so that "unexported fields are never
// validated" is tested with violating content).
func (t *Tree) SetHidden(l Leaf) { t.hidden = l }

// Multi carries rule sets for several tag names (C08).
type Multi struct {
	A string `alipay:"to=1~3" wechat:"to=5~9" valid:"required"`
	B int    `alipay:"ge=10" wechat:"le=5"`
	C string `wechat:"phone" valid:"to=2~4"`
}

// Named (defined) scalar types, as generated code is full of them (protobuf
// enums are named int32 types with a String method).  Some of them print
// differently under fmt than their underlying value.
type (
	MyStr  string
	MyInt  int
	MyI8   int8
	MyI32  int32 // enum-like: has a String method
	MyI64  int64
	MyU8   uint8
	MyU32  uint32
	MyU64  uint64
	MyF32  float32
	MyF64  float64
	MyBool bool
)

func (e MyI32) String() string { return "ENUM_" + strconv.Itoa(int(e)) }

// IsZero methods (as encoding/json's omitzero looks for) that disagree with the Go zero value:
// emptiness in the validator's sense is the Go zero value of the field, nothing else.
func (v MyI8) IsZero() bool    { return v == -1 }
func (v MyF64) IsZero() bool   { return v == 1.5 }
func (s MyStr) String() string { return "<" + string(s) + ">" }

// Len is the BYTE length (containers often have a Len method; a string's measure is its character count).
func (s MyStr) Len() int      { return len(s) + 1 }
func (u MyU8) String() string { return "u8" }

// float types with methods fmt would call (a temperature that prints itself, a value that is an error)
func (f MyF32) String() string { return "f32°" }
func (f MyF64) Error() string  { return "f64 as error" }

// NamedScalars maps a scalar kind name to its named variant.
var NamedScalars = map[string]reflect.Type{
	"string": reflect.TypeOf(MyStr("")), "int": reflect.TypeOf(MyInt(0)), "int8": reflect.TypeOf(MyI8(0)), "int32": reflect.TypeOf(MyI32(0)),
	"int64": reflect.TypeOf(MyI64(0)), "uint8": reflect.TypeOf(MyU8(0)), "uint32": reflect.TypeOf(MyU32(0)), "uint64": reflect.TypeOf(MyU64(0)),
	"float32": reflect.TypeOf(MyF32(0)), "float64": reflect.TypeOf(MyF64(0)), "bool": reflect.TypeOf(MyBool(false)),
}

// itemA and itemB return two DISTINCT struct types that print alike
// ("lib.Item"): types declared in different function scopes (the same happens
// with equally named types of two packages that share their base name).
func itemA() reflect.Type {
	type Item struct {
		Name string `valid:"required|item name"`
		N    int    `valid:"ge=2|item n"`
	}
	return reflect.TypeOf(Item{})
}

// item2A and item2B: two DISTINCT types that print alike AND carry different rules (whoever
// confuses them by their printed name judges one by the other's rules).
func item2A() reflect.Type {
	type Item2 struct {
		Name string `valid:"required|item2 name"`
		N    int
	}
	return reflect.TypeOf(Item2{})
}

func item2B() reflect.Type {
	type Item2 struct {
		Name string
		N    int `valid:"ge=5|item2 n"`
	}
	return reflect.TypeOf(Item2{})
}

func itemB() reflect.Type {
	type Item struct {
		Name string `valid:"required|item name"`
		N    int    `valid:"ge=2|item n"`
	}
	return reflect.TypeOf(Item{})
}

// Types is the registry name -> type.
// DirT and EntsT refer to each other (a cycle of two types).  Unlike the skeleton types above they
// carry their rules in tags, and EntsT carries nothing but the markers of nested validation: whether
// a sub-tree "has rules" cannot be told from EntsT alone.  The link field comes first in DirT.
type DirT struct {
	Entries *EntsT  `valid:"exist"`
	Name    string  `valid:"required|dir name"`
	Sub     []*DirT `valid:"exist"`
	Note    string
}

type EntsT struct {
	Items []*DirT         `valid:"exist"`
	First *DirT           `valid:"exist"`
	ByKey map[string]DirT `valid:"exist"`
}

// Alias holds several pointers of one type under names that extend one another (Addr / Addr2,
// F1 / F10, L / LX.Leaf): the same object may hang under two of them (shared, not cyclic).
type Alias struct {
	Addr  *Leaf
	Addr2 *Leaf
	F1    *Leaf
	F10   *Leaf
	L     *Leaf
	LX    AliasIn
	Name  string
	Cost  Money
	PCost *Money
}

type AliasIn struct {
	Leaf *Leaf
	Name string
	Fee  Money
}

// Money is a struct type with an IsZero method (as encoding/json's omitzero and many domain types have) that
// calls a value "zero" which is not the Go zero value: for the validator it is a struct like any other - a
// populated one whenever any field is set, with rules, per-type rule sets and descent as usual.
type Money struct {
	Currency string
	Cents    int
}

func (m Money) IsZero() bool { return m.Cents == 0 }

// Time is a struct type of this package that happens to be NAMED like time.Time (a time of day).
type Time struct {
	Hour, Min int
}

var Types = map[string]reflect.Type{
	"Time":    reflect.TypeOf(Time{}),
	"Alias":   reflect.TypeOf(Alias{}),
	"AliasIn": reflect.TypeOf(AliasIn{}),
	"Money":   reflect.TypeOf(Money{}),
	"DirT":    reflect.TypeOf(DirT{}),
	"EntsT":   reflect.TypeOf(EntsT{}),
	"Leaf":    reflect.TypeOf(Leaf{}),
	"Mid":     reflect.TypeOf(Mid{}),
	"Top":     reflect.TypeOf(Top{}),
	"Tree":    reflect.TypeOf(Tree{}),
	"Emb":     reflect.TypeOf(Emb{}),
	"Multi":   reflect.TypeOf(Multi{}),
	"Stamp":   reflect.TypeOf(Stamp{}),
	"ItemA":   itemA(),
	"Item2A":  item2A(),
	"Item2B":  item2B(),
	"ItemB":   itemB(),
}
