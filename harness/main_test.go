package harness

import (
	"os"
	"runtime"
	"sync"
	"sync/atomic"
	"testing"

	"gitee.com/xuesongtao/protoc-go-valid/valid"

	"verifharness/ev"
	"verifharness/model"
)

// proxyCache is installed once (SetStructTypeCache is one-shot) and forwards to
// a backend the harness can swap at will.  It uses only the exported CacheEr
// interface, so no source hook is needed.
type proxyCache struct {
	backend atomic.Value // holds *backendBox
	count   bool         // plain field: set only while no validation is running
	loads   int64
	hits    int64
	stores  int64
}

type backendBox struct{ c valid.CacheEr }

func (p *proxyCache) Load(key interface{}) (interface{}, bool) {
	v, ok := p.backend.Load().(*backendBox).c.Load(key)
	if p.count {
		atomic.AddInt64(&p.loads, 1)
		if ok {
			atomic.AddInt64(&p.hits, 1)
		}
	}
	return v, ok
}

func (p *proxyCache) Store(key, value interface{}) {
	if p.count {
		atomic.AddInt64(&p.stores, 1)
	}
	p.backend.Load().(*backendBox).c.Store(key, value)
}

func (p *proxyCache) set(c valid.CacheEr) { p.backend.Store(&backendBox{c}) }

// missCache forgets everything.
type missCache struct{}

func (missCache) Load(interface{}) (interface{}, bool) { return nil, false }
func (missCache) Store(interface{}, interface{})       {}

// syncMapCache is the unbounded cache the library's comments suggest.
type syncMapCache struct{ m sync.Map }

func (s *syncMapCache) Load(k interface{}) (interface{}, bool) { return s.m.Load(k) }
func (s *syncMapCache) Store(k, v interface{})                 { s.m.Store(k, v) }

var proxy = &proxyCache{}
var proxyInstalled bool

// freshState makes the library forget everything it may remember from earlier
// calls: an empty type cache and flushed sync.Pools (two GCs: pool + victim).
func freshState() {
	resetCustomWords()
	for k := range rmSlots {
		delete(rmSlots, k)
	}
	if proxyInstalled {
		proxy.set(valid.NewLRU(512))
	}
	runtime.GC()
	runtime.GC()
}

func TestMain(m *testing.M) {
	proxy.set(valid.NewLRU(512))
	if os.Getenv("VERIF_NO_PROXY") == "" {
		valid.SetStructTypeCache(proxy)
		proxyInstalled = true
	} else if os.Getenv("VERIF_SYNCMAP") != "" {
		// the unbounded cache the library's comments suggest, handed over as it is (a *sync.Map has more methods than
		// CacheEr asks for - LoadOrStore, Range ... - which the proxy would hide)
		valid.SetStructTypeCache(&sync.Map{})
	}
	if sep := os.Getenv("VERIF_SEP"); sep != "" {
		// the clause separator is an exported variable of the library: this process runs with another one
		valid.ErrEndFlag = sep
		model.Sep = sep
	}
	registerGlobals()
	code := m.Run()
	unprivCleanup()
	ev.Flush()
	os.Exit(code)
}
