package model

import (
	"regexp"
	"strings"
)

// Clause is one parsed clause of a validation error.
//
//	value clause:  "<path>" input "<echo>", <label> <text>      (path may be absent for Var)
//	field clause:  "<path>" <text>                               (unknown rule, rule-writing error)
//	group clause:  "<p1>", "<p2>" explain: they ...              (either / botheq)
type Clause struct {
	Kind    string   // "value" | "field" | "group" | "bare"
	Path    string   // value / field clauses ("" when absent)
	Echo    string   // value clauses
	Label   string   // "explain:" | "说明:" | "" (value clause without explanation)
	Text    string   // text after the label (value), after the path (field), after the label (group)
	Paths   []string // group clauses
	Raw     string
	HasEcho bool
}

// Sep is the clause separator (valid.ErrEndFlag, an exported variable of the library: one
// process of C02 / C15 / C17 runs with a different value).
var Sep = "; "

var (
	groupRe = regexp.MustCompile(`^("[^"]*"(?:, "[^"]*")+) (explain:|说明:) (.*)$`)
	valueRe = regexp.MustCompile(`(?s)^(?:"([^"]*)" )?input "(.*?)"(?:, (.*))?$`)
	fieldRe = regexp.MustCompile(`(?s)^"([^"]*)" (.*)$`)
	quoted  = regexp.MustCompile(`"([^"]*)"`)
)

// SplitErr splits an error text into raw clauses and reports framing problems
// (empty clause, trailing separator).
func SplitErr(s string) (raw []string, framing string) {
	if s == "" {
		return nil, "empty error text"
	}
	if strings.HasSuffix(s, Sep) || (Sep == "; " && strings.HasSuffix(s, ";")) || strings.HasSuffix(s, "; ") {
		framing = "trailing clause separator"
	}
	raw = strings.Split(s, Sep)
	for _, r := range raw {
		if strings.TrimSpace(r) == "" && framing == "" {
			framing = "empty clause between separators"
		}
	}
	return raw, framing
}

// ParseClause classifies one raw clause.
func ParseClause(raw string) Clause {
	c := Clause{Raw: raw}
	if m := groupRe.FindStringSubmatch(raw); m != nil {
		c.Kind = "group"
		for _, q := range quoted.FindAllStringSubmatch(m[1], -1) {
			c.Paths = append(c.Paths, q[1])
		}
		c.Label = m[2]
		c.Text = m[3]
		return c
	}
	if m := valueRe.FindStringSubmatch(raw); m != nil {
		c.Kind = "value"
		c.Path = m[1]
		c.Echo = m[2]
		c.HasEcho = true
		rest := m[3]
		switch {
		case strings.HasPrefix(rest, "explain: "):
			c.Label, c.Text = "explain:", rest[len("explain: "):]
		case strings.HasPrefix(rest, "说明: "):
			c.Label, c.Text = "说明:", rest[len("说明: "):]
		case rest == "explain:" || rest == "说明:":
			c.Label = rest
		default:
			c.Text = rest
		}
		return c
	}
	if m := fieldRe.FindStringSubmatch(raw); m != nil {
		c.Kind = "field"
		c.Path = m[1]
		c.Text = m[2]
		return c
	}
	c.Kind = "bare"
	c.Text = raw
	return c
}

// ParseErr parses a whole error text.
func ParseErr(s string) (cl []Clause, framing string) {
	raw, framing := SplitErr(s)
	for _, r := range raw {
		cl = append(cl, ParseClause(r))
	}
	return cl, framing
}

// AmbiguousText reports whether a value or message would make the error text
// format itself ambiguous for any parser (excluded by construction, counted).
func AmbiguousText(s string) bool { return AmbiguousMsg(s) || strings.Contains(s, `"`) }

// AmbiguousMsg is AmbiguousText for custom messages: a double quote inside a message is harmless
// (the message is the last part of its clause; only the echoed value is delimited by quotes).
func AmbiguousMsg(s string) bool {
	// (the text sits between blanks in a clause: " "+s+" " covers a separator formed with the context,
	// e.g. a message ending in ";" under the default separator)
	return strings.Contains(" "+s+" ", Sep) || strings.Contains(s, "explain:") || strings.Contains(s, "说明:") || strings.HasSuffix(s, ";")
}
