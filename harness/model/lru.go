// Package model holds reference implementations written from the property
// statements and the README, independent of the code under test.
package model

// KV is one cache entry.
type KV struct {
	K string
	V int
}

// LRU is the sequential reference model of a bounded least-recently-used map:
// a slice in recency order, most recent first.
type LRU struct {
	Cap     int
	Ent     []KV
	Removed []KV     // log of evicted / deleted entries, in order (what the callback must see)
	Ins     []string // keys in insertion order of the live entries (to know the FIFO victim)
}

// Clone copies the model state.
func (m *LRU) Clone() *LRU {
	c := &LRU{Cap: m.Cap}
	c.Ent = append([]KV(nil), m.Ent...)
	c.Removed = append([]KV(nil), m.Removed...)
	c.Ins = append([]string(nil), m.Ins...)
	return c
}

func (m *LRU) find(k string) int {
	for i, e := range m.Ent {
		if e.K == k {
			return i
		}
	}
	return -1
}

func (m *LRU) dropIns(k string) {
	for i, x := range m.Ins {
		if x == k {
			m.Ins = append(m.Ins[:i:i], m.Ins[i+1:]...)
			return
		}
	}
}

// StoreInfo describes what a Store did (for the non-triviality classifiers).
type StoreInfo struct {
	Overwrite  bool
	Evicted    bool
	Victim     KV
	FIFOVictim string
}

// Store inserts or overwrites k and makes it the most recent entry; on overflow
// the least recently used entry is evicted.
func (m *LRU) Store(k string, v int) StoreInfo {
	var info StoreInfo
	if i := m.find(k); i >= 0 {
		info.Overwrite = true
		e := m.Ent[i]
		e.V = v
		copy(m.Ent[1:i+1], m.Ent[:i])
		m.Ent[0] = e
		return info
	}
	m.Ent = append([]KV{{k, v}}, m.Ent...)
	m.Ins = append(m.Ins, k)
	if len(m.Ent) > m.Cap {
		info.Evicted = true
		info.FIFOVictim = m.Ins[0]
		last := m.Ent[len(m.Ent)-1]
		info.Victim = last
		m.Ent = m.Ent[:len(m.Ent)-1]
		m.dropIns(last.K)
		m.Removed = append(m.Removed, last)
	}
	return info
}

// Load returns the value and refreshes recency.
func (m *LRU) Load(k string) (int, bool) {
	i := m.find(k)
	if i < 0 {
		return 0, false
	}
	e := m.Ent[i]
	copy(m.Ent[1:i+1], m.Ent[:i])
	m.Ent[0] = e
	return e.V, true
}

// Delete removes k if live.
func (m *LRU) Delete(k string) bool {
	i := m.find(k)
	if i < 0 {
		return false
	}
	e := m.Ent[i]
	m.Ent = append(m.Ent[:i:i], m.Ent[i+1:]...)
	m.dropIns(k)
	m.Removed = append(m.Removed, e)
	return true
}

// Len is the number of live entries.
func (m *LRU) Len() int { return len(m.Ent) }
