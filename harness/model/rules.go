package model

import (
	"math/big"
	"reflect"
	"regexp"
	"strconv"
	"strings"
	"unicode/utf8"
)

// Verdict of one rule instance on one non-empty value.
type Verdict int

const (
	OK        Verdict = iota // rule satisfied: no clause
	Violated                 // rule violated: exactly one value clause
	ConfigErr                // rule-writing error (malformed argument / wrong kind): exactly one clause, wording not asserted
	Undefined                // the documentation does not decide this corner: nothing asserted
)

func (v Verdict) String() string {
	return [...]string{"ok", "violated", "config-error", "undefined"}[v]
}

// SizeRules are the eight size/comparison rules of C01.
var SizeRules = []string{"to", "ge", "le", "oto", "gt", "lt", "eq", "noeq"}

// IsSizeRule reports whether key is one of the eight size rules.
func IsSizeRule(key string) bool {
	for _, r := range SizeRules {
		if r == key {
			return true
		}
	}
	return false
}

// Measure returns the documented measure of a value as an exact rational:
// rune count of a string, numeric value of a number, length of a slice.
func Measure(v reflect.Value) (*big.Rat, bool) {
	switch v.Kind() {
	case reflect.String:
		return new(big.Rat).SetInt64(int64(utf8.RuneCountInString(v.String()))), true
	case reflect.Int, reflect.Int8, reflect.Int16, reflect.Int32, reflect.Int64:
		return new(big.Rat).SetInt64(v.Int()), true
	case reflect.Uint, reflect.Uint8, reflect.Uint16, reflect.Uint32, reflect.Uint64, reflect.Uintptr:
		return new(big.Rat).SetInt(new(big.Int).SetUint64(v.Uint())), true
	case reflect.Float32, reflect.Float64:
		f := v.Float()
		if f != f || f > 1e308 || f < -1e308 {
			return nil, false
		}
		r := new(big.Rat)
		if r.SetFloat64(f) == nil {
			return nil, false
		}
		return r, true
	case reflect.Slice:
		return new(big.Rat).SetInt64(int64(v.Len())), true
	}
	return nil, false
}

func parseBound(s string) (*big.Rat, bool) {
	// an integer the library's documented syntax can carry: optional sign, decimal digits, within int64
	n, err := strconv.ParseInt(s, 10, 64)
	if err != nil {
		return nil, false
	}
	return new(big.Rat).SetInt64(n), true
}

// SizeVerdict decides a size rule by exact comparison of the measure.
// For to/oto it also reports whether the value lies below and/or above (both
// happen only when min > max).
func SizeVerdict(key, arg string, v reflect.Value) (verdict Verdict, below, above bool) {
	m, ok := Measure(v)
	if !ok {
		return Undefined, false, false
	}
	switch key {
	case "to", "oto":
		parts := strings.Split(arg, "~")
		if len(parts) != 2 {
			return ConfigErr, false, false
		}
		lo, ok1 := parseBound(parts[0])
		hi, ok2 := parseBound(parts[1])
		if !ok1 || !ok2 {
			return ConfigErr, false, false
		}
		if key == "to" {
			below, above = m.Cmp(lo) < 0, m.Cmp(hi) > 0
		} else {
			below, above = m.Cmp(lo) <= 0, m.Cmp(hi) >= 0
		}
		if below || above {
			return Violated, below, above
		}
		return OK, false, false
	}
	b, okb := parseBound(arg)
	if !okb {
		return Undefined, false, false // ge=abc etc.: documentation silent
	}
	var bad bool
	switch key {
	case "ge":
		bad = m.Cmp(b) < 0
	case "le":
		bad = m.Cmp(b) > 0
	case "gt":
		bad = m.Cmp(b) <= 0
	case "lt":
		bad = m.Cmp(b) >= 0
	case "eq":
		bad = m.Cmp(b) != 0
	case "noeq":
		bad = m.Cmp(b) == 0
	default:
		return Undefined, false, false
	}
	if bad {
		return Violated, false, false
	}
	return OK, false, false
}

// Canon is the canonical decimal rendering of a scalar (what echo, in and
// unique compare): strconv.FormatInt/Uint, FormatFloat(v,'f',-1,bitsize),
// true/false, the string itself.
func Canon(v reflect.Value) (string, bool) {
	switch v.Kind() {
	case reflect.String:
		return v.String(), true
	case reflect.Int, reflect.Int8, reflect.Int16, reflect.Int32, reflect.Int64:
		return strconv.FormatInt(v.Int(), 10), true
	case reflect.Uint, reflect.Uint8, reflect.Uint16, reflect.Uint32, reflect.Uint64:
		return strconv.FormatUint(v.Uint(), 10), true
	case reflect.Float32:
		return strconv.FormatFloat(v.Float(), 'f', -1, 32), true
	case reflect.Float64:
		return strconv.FormatFloat(v.Float(), 'f', -1, 64), true
	case reflect.Bool:
		return strconv.FormatBool(v.Bool()), true
	}
	return "", false
}

// SplitOutsideQuotes splits s on sep outside single-quoted segments (the
// documented quoting), keeping the quotes in the pieces.
func SplitOutsideQuotes(s string, sep byte) []string {
	var out []string
	inq := false
	start := 0
	for i := 0; i < len(s); i++ {
		switch {
		case s[i] == '\'':
			inq = !inq
		case s[i] == sep && !inq:
			out = append(out, s[start:i])
			start = i + 1
		}
	}
	return append(out, s[start:])
}

// InOptions parses the option list of in / include: the text between the first
// "(" and the last ")", split on "/" outside single quotes, one layer of quotes
// removed from a fully quoted option.
func InOptions(arg string) ([]string, bool) {
	l := strings.Index(arg, "(")
	r := strings.LastIndex(arg, ")")
	if l < 0 || r < 0 || r < l {
		return nil, false
	}
	var opts []string
	for _, p := range SplitOutsideQuotes(arg[l+1:r], '/') {
		if len(p) >= 2 && p[0] == '\'' && p[len(p)-1] == '\'' {
			p = p[1 : len(p)-1]
		}
		opts = append(opts, p)
	}
	return opts, true
}

func isDigits(s string) bool {
	if s == "" {
		return false
	}
	for i := 0; i < len(s); i++ {
		if s[i] < '0' || s[i] > '9' {
			return false
		}
	}
	return true
}

func isWordByte(c byte) bool {
	return c == '_' || (c >= '0' && c <= '9') || (c >= 'a' && c <= 'z') || (c >= 'A' && c <= 'Z')
}

// words splits s into maximal word runs and the single separator bytes between
// them; ok is false unless s is word (sep word)* with every sep in seps.
func words(s, seps string) (nwords int, sepsSeen []byte, ok bool) {
	i := 0
	for {
		j := i
		for j < len(s) && isWordByte(s[j]) {
			j++
		}
		if j == i {
			return 0, nil, false
		}
		nwords++
		if j == len(s) {
			return nwords, sepsSeen, true
		}
		if strings.IndexByte(seps, s[j]) < 0 {
			return 0, nil, false
		}
		sepsSeen = append(sepsSeen, s[j])
		i = j + 1
	}
}

// IsPhone: 1, one of 3-9, nine ASCII digits.
func IsPhone(s string) bool {
	return len(s) == 11 && s[0] == '1' && s[1] >= '3' && s[1] <= '9' && isDigits(s)
}

// IsEmail: word([-+.]word)* @ word([-.]word)* . word([-.]word)*  with word = [A-Za-z0-9_]+
func IsEmail(s string) bool {
	at := strings.IndexByte(s, '@')
	if at < 0 || strings.IndexByte(s[at+1:], '@') >= 0 {
		return false
	}
	if _, _, ok := words(s[:at], "-+."); !ok {
		return false
	}
	n, seps, ok := words(s[at+1:], "-.")
	if !ok || n < 2 {
		return false
	}
	for _, c := range seps {
		if c == '.' {
			return true
		}
	}
	return false
}

// IsIDCard: 15 digits, or 17 digits followed by a digit or X/x.
func IsIDCard(s string) bool {
	switch len(s) {
	case 15:
		return isDigits(s)
	case 18:
		last := s[17]
		return isDigits(s[:17]) && (last == 'X' || last == 'x' || (last >= '0' && last <= '9'))
	}
	return false
}

// ParseIPv4 recognises dotted decimal: four octets 0-255 without leading zeros.
func ParseIPv4(s string) ([4]byte, bool) {
	var out [4]byte
	parts := strings.Split(s, ".")
	if len(parts) != 4 {
		return out, false
	}
	for i, p := range parts {
		if !isDigits(p) || len(p) > 3 || (len(p) > 1 && p[0] == '0') {
			return out, false
		}
		n, _ := strconv.Atoi(p)
		if n > 255 {
			return out, false
		}
		out[i] = byte(n)
	}
	return out, true
}

// ParseIPv6 recognises the RFC 4291 text forms (hex groups, one "::", optional
// dotted-decimal tail), no zone.
func ParseIPv6(s string) ([16]byte, bool) {
	var out [16]byte
	if strings.Count(s, "::") > 1 || !strings.Contains(s, ":") {
		return out, false
	}
	parseGroups := func(part string, allowV4Tail bool) ([]uint16, bool) {
		if part == "" {
			return nil, true
		}
		toks := strings.Split(part, ":")
		var gs []uint16
		for i, tk := range toks {
			if i == len(toks)-1 && allowV4Tail && strings.Contains(tk, ".") {
				v4, ok := ParseIPv4(tk)
				if !ok {
					return nil, false
				}
				gs = append(gs, uint16(v4[0])<<8|uint16(v4[1]), uint16(v4[2])<<8|uint16(v4[3]))
				continue
			}
			if len(tk) == 0 || len(tk) > 4 {
				return nil, false
			}
			n, err := strconv.ParseUint(tk, 16, 16)
			if err != nil {
				return nil, false
			}
			for _, c := range tk { // ParseUint accepts only hex digits here, but be explicit (no sign, no _)
				if !strings.ContainsRune("0123456789abcdefABCDEF", c) {
					return nil, false
				}
			}
			gs = append(gs, uint16(n))
		}
		return gs, true
	}
	var groups []uint16
	if i := strings.Index(s, "::"); i >= 0 {
		head, ok1 := parseGroups(s[:i], false)
		tail, ok2 := parseGroups(s[i+2:], true)
		if !ok1 || !ok2 || len(head)+len(tail) > 7 {
			return out, false
		}
		groups = append(groups, head...)
		for k := 0; k < 8-len(head)-len(tail); k++ {
			groups = append(groups, 0)
		}
		groups = append(groups, tail...)
	} else {
		g, ok := parseGroups(s, true)
		if !ok || len(g) != 8 {
			return out, false
		}
		groups = g
	}
	for i, g := range groups {
		out[2*i], out[2*i+1] = byte(g>>8), byte(g)
	}
	return out, true
}

// IPClass classifies s: "v4", "v6", "mapped" (IPv6 text of an IPv4-mapped
// address: the documentation does not say which family it belongs to) or "".
func IPClass(s string) string {
	if _, ok := ParseIPv4(s); ok {
		return "v4"
	}
	if b, ok := ParseIPv6(s); ok {
		mapped := true
		for i := 0; i < 10; i++ {
			if b[i] != 0 {
				mapped = false
			}
		}
		if mapped && b[10] == 0xff && b[11] == 0xff {
			return "mapped"
		}
		return "v6"
	}
	return ""
}

func daysIn(y, m int) int {
	switch m {
	case 4, 6, 9, 11:
		return 30
	case 2:
		if y%4 == 0 && (y%100 != 0 || y%400 == 0) {
			return 29
		}
		return 28
	}
	return 31
}

// IsDateLike recognises fixed-width digit fields joined by the given
// separators.  nfields: 1 year, 2 year+month, 3 date, 6 datetime.
// seps = {date separator, date/time separator, time separator}.
func IsDateLike(s string, nfields int, seps [3]string) bool {
	widths := []int{4, 2, 2, 2, 2, 2}
	var f [6]int
	pos := 0
	for i := 0; i < nfields; i++ {
		if i > 0 {
			sep := seps[0]
			if i == 3 {
				sep = seps[1]
			} else if i > 3 {
				sep = seps[2]
			}
			if !strings.HasPrefix(s[pos:], sep) {
				return false
			}
			pos += len(sep)
		}
		if pos+widths[i] > len(s) || !isDigits(s[pos:pos+widths[i]]) {
			return false
		}
		f[i], _ = strconv.Atoi(s[pos : pos+widths[i]])
		pos += widths[i]
	}
	if pos != len(s) {
		return false
	}
	if nfields >= 2 && (f[1] < 1 || f[1] > 12) {
		return false
	}
	if nfields >= 3 && (f[2] < 1 || f[2] > daysIn(f[0], f[1])) {
		return false
	}
	if nfields >= 6 && (f[3] > 23 || f[4] > 59 || f[5] > 59) {
		return false
	}
	return true
}

// DateSeps derives the separators from a date-like rule argument the way the
// README documents it: quotes protect the text, datetime takes up to three
// comma-separated separators (date, date/time, time), defaults "-", " ", ":".
func DateSeps(key, arg string) (seps [3]string, ok bool) {
	seps = [3]string{"-", " ", ":"}
	if arg == "" {
		return seps, true
	}
	a := strings.Trim(arg, "'")
	if key == "datetime" {
		parts := strings.Split(a, ",")
		if len(parts) > 3 {
			return seps, false
		}
		copy(seps[:], parts)
		return seps, true
	}
	seps[0] = a
	return seps, true
}

// IsJSON is a recursive-descent RFC 8259 recogniser.
func IsJSON(s string) bool {
	p := &jsonp{s: s}
	p.ws()
	if !p.value(0) {
		return false
	}
	p.ws()
	return p.i == len(p.s)
}

type jsonp struct {
	s string
	i int
}

func (p *jsonp) ws() {
	for p.i < len(p.s) && (p.s[p.i] == ' ' || p.s[p.i] == '\t' || p.s[p.i] == '\n' || p.s[p.i] == '\r') {
		p.i++
	}
}

func (p *jsonp) lit(l string) bool {
	if strings.HasPrefix(p.s[p.i:], l) {
		p.i += len(l)
		return true
	}
	return false
}

func (p *jsonp) value(depth int) bool {
	if depth > 9000 || p.i >= len(p.s) {
		return false
	}
	switch c := p.s[p.i]; {
	case c == '{':
		p.i++
		p.ws()
		if p.i < len(p.s) && p.s[p.i] == '}' {
			p.i++
			return true
		}
		for {
			p.ws()
			if !p.str() {
				return false
			}
			p.ws()
			if p.i >= len(p.s) || p.s[p.i] != ':' {
				return false
			}
			p.i++
			p.ws()
			if !p.value(depth + 1) {
				return false
			}
			p.ws()
			if p.i >= len(p.s) {
				return false
			}
			if p.s[p.i] == ',' {
				p.i++
				continue
			}
			if p.s[p.i] == '}' {
				p.i++
				return true
			}
			return false
		}
	case c == '[':
		p.i++
		p.ws()
		if p.i < len(p.s) && p.s[p.i] == ']' {
			p.i++
			return true
		}
		for {
			p.ws()
			if !p.value(depth + 1) {
				return false
			}
			p.ws()
			if p.i >= len(p.s) {
				return false
			}
			if p.s[p.i] == ',' {
				p.i++
				continue
			}
			if p.s[p.i] == ']' {
				p.i++
				return true
			}
			return false
		}
	case c == '"':
		return p.str()
	case c == 't':
		return p.lit("true")
	case c == 'f':
		return p.lit("false")
	case c == 'n':
		return p.lit("null")
	case c == '-' || (c >= '0' && c <= '9'):
		return p.num()
	}
	return false
}

func (p *jsonp) str() bool {
	if p.i >= len(p.s) || p.s[p.i] != '"' {
		return false
	}
	p.i++
	for p.i < len(p.s) {
		c := p.s[p.i]
		switch {
		case c == '"':
			p.i++
			return true
		case c == '\\':
			p.i++
			if p.i >= len(p.s) {
				return false
			}
			switch p.s[p.i] {
			case '"', '\\', '/', 'b', 'f', 'n', 'r', 't':
				p.i++
			case 'u':
				if p.i+4 >= len(p.s) {
					return false
				}
				for k := 1; k <= 4; k++ {
					if !strings.ContainsRune("0123456789abcdefABCDEF", rune(p.s[p.i+k])) {
						return false
					}
				}
				p.i += 5
			default:
				return false
			}
		case c < 0x20:
			return false
		default:
			p.i++
		}
	}
	return false
}

func (p *jsonp) digits() int {
	n := 0
	for p.i < len(p.s) && p.s[p.i] >= '0' && p.s[p.i] <= '9' {
		p.i++
		n++
	}
	return n
}

func (p *jsonp) num() bool {
	if p.s[p.i] == '-' {
		p.i++
	}
	if p.i >= len(p.s) {
		return false
	}
	if p.s[p.i] == '0' {
		p.i++
	} else if p.digits() == 0 {
		return false
	}
	if p.i < len(p.s) && p.s[p.i] == '.' {
		p.i++
		if p.digits() == 0 {
			return false
		}
	}
	if p.i < len(p.s) && (p.s[p.i] == 'e' || p.s[p.i] == 'E') {
		p.i++
		if p.i < len(p.s) && (p.s[p.i] == '+' || p.s[p.i] == '-') {
			p.i++
		}
		if p.digits() == 0 {
			return false
		}
	}
	return true
}

func isIntKind(k reflect.Kind) bool {
	switch k {
	case reflect.Int, reflect.Int8, reflect.Int16, reflect.Int32, reflect.Int64,
		reflect.Uint, reflect.Uint8, reflect.Uint16, reflect.Uint32, reflect.Uint64:
		return true
	}
	return false
}

func isFloatKind(k reflect.Kind) bool { return k == reflect.Float32 || k == reflect.Float64 }

func isUFloatText(s string) bool {
	dot := strings.IndexByte(s, '.')
	return dot > 0 && isDigits(s[:dot]) && isDigits(s[dot+1:])
}

// Env carries what the file/dir oracle needs to know about the file system
// the harness created, and the pattern the generator put into a re rule.
type Env struct {
	Files map[string]bool // path -> is regular file
	Dirs  map[string]bool // path -> is directory
	RePat string          // the generator's own pattern for the re rule of this instance
}

// Judge decides one rule instance on one non-empty value, from the
// documentation alone.
func Judge(key, arg string, v reflect.Value, env *Env) Verdict {
	k := v.Kind()
	strOnly := func(pred func(string) bool) Verdict {
		if k != reflect.String {
			return ConfigErr // "it must is string"
		}
		if pred(v.String()) {
			return OK
		}
		return Violated
	}
	switch key {
	case "to", "ge", "le", "oto", "gt", "lt", "eq", "noeq":
		vd, _, _ := SizeVerdict(key, arg, v)
		return vd
	case "in":
		opts, ok := InOptions(arg)
		if !ok {
			return ConfigErr
		}
		s, ok := Canon(v)
		if !ok {
			return Undefined
		}
		for _, o := range opts {
			if o == s {
				return OK
			}
		}
		return Violated
	case "include":
		opts, ok := InOptions(arg)
		if !ok {
			return ConfigErr
		}
		if k != reflect.String {
			return ConfigErr
		}
		for _, o := range opts {
			if strings.Contains(v.String(), o) {
				return OK
			}
		}
		return Violated
	case "phone":
		return strOnly(IsPhone)
	case "email":
		return strOnly(IsEmail)
	case "idcard":
		return strOnly(IsIDCard)
	case "ip", "ipv4", "ipv6":
		if k != reflect.String {
			return ConfigErr
		}
		switch c := IPClass(v.String()); {
		case c == "mapped":
			return Undefined
		case key == "ip" && c != "", key == "ipv4" && c == "v4", key == "ipv6" && c == "v6":
			return OK
		}
		return Violated
	case "year", "year2month", "date", "datetime":
		if k != reflect.String {
			return ConfigErr
		}
		n := map[string]int{"year": 1, "year2month": 2, "date": 3, "datetime": 6}[key]
		if key == "year" {
			arg = ""
		}
		seps, ok := DateSeps(key, arg)
		if !ok {
			return ConfigErr
		}
		if IsDateLike(v.String(), n, seps) {
			return OK
		}
		return Violated
	case "int":
		if k == reflect.String {
			if isDigits(v.String()) {
				return OK
			}
			return Violated
		}
		if isIntKind(k) {
			return OK
		}
		return Violated
	case "ints":
		sep := arg
		if sep == "" {
			sep = ","
		}
		switch {
		case k == reflect.String:
			for _, p := range strings.Split(v.String(), sep) {
				if !isDigits(p) {
					return Violated
				}
			}
			return OK
		case k == reflect.Slice || k == reflect.Array:
			for i := 0; i < v.Len(); i++ {
				s, ok := Canon(v.Index(i))
				if !ok {
					return Undefined
				}
				if !isDigits(s) {
					return Violated
				}
			}
			return OK
		case isIntKind(k):
			return OK
		}
		return ConfigErr
	case "float":
		if k == reflect.String {
			if isUFloatText(v.String()) {
				return OK
			}
			return Violated
		}
		if isFloatKind(k) {
			return OK
		}
		return Violated
	case "re":
		if k != reflect.String {
			return ConfigErr
		}
		if env == nil {
			return Undefined
		}
		re, err := regexp.Compile(env.RePat)
		if err != nil {
			return Undefined
		}
		if re.MatchString(v.String()) {
			return OK
		}
		return Violated
	case "unique":
		var items []string
		switch {
		case k == reflect.String:
			items = strings.Split(v.String(), ",")
		case k == reflect.Slice || k == reflect.Array:
			for i := 0; i < v.Len(); i++ {
				s, ok := Canon(v.Index(i))
				if !ok {
					return Undefined
				}
				items = append(items, s)
			}
		default:
			return ConfigErr
		}
		for i := range items {
			for j := i + 1; j < len(items); j++ {
				if items[i] == items[j] {
					return Violated
				}
			}
		}
		return OK
	case "json":
		return strOnly(IsJSON)
	case "prefix":
		return strOnly(func(s string) bool { return len(s) >= len(arg) && s[:len(arg)] == arg })
	case "suffix":
		return strOnly(func(s string) bool { return len(s) >= len(arg) && s[len(s)-len(arg):] == arg })
	case "file", "dir":
		if k != reflect.String {
			return ConfigErr
		}
		if env == nil {
			return Undefined
		}
		p := v.String()
		isF, isD := env.Files[p], env.Dirs[p]
		if !isF && !isD {
			return Violated // missing path: the rule cannot hold
		}
		if (key == "file" && isF) || (key == "dir" && isD) {
			return OK
		}
		return Violated
	}
	return Undefined
}
