package model

import (
	"fmt"
	"reflect"
	"sort"
	"strconv"
	"strings"
	"time"
)

// The reference walker: a deliberately plain implementation of the documented
// struct-validation semantics (README §4, property texts C02-C04, C16, C17).

// Exp is one expected clause.
type Exp struct {
	Kind    string   // value | cfg | unknown | nonsupport | group | single
	Path    string   // path as printed (with root label)
	Obj     string   // path of the object the field belongs to
	Field   string   // field name
	Item    string   // the rule item text
	Key     string   // rule key
	Msg     string   // custom message ("" = default wording)
	Echo    string   // expected echo
	EchoOK  bool     // whether Echo is asserted
	EchoNum bool     // compare echo numerically at float precision
	EchoEsc string   // json rule, value of at most 256 bytes: the echo is the value in SOME escaped form (compared after dropping escapes)
	F32     bool     // the echoed value is a float32
	Members []string // group members (paths)
	GKind   string   // either | botheq
	Twice   bool     // to/oto with min>max violated on both sides: two clauses
}

// Item is a node of the expected-order tree: a clause or an unordered block of
// per-map-entry sequences.
type Item struct {
	C       *Exp
	Entries map[string][]Item // entry path -> sequence
}

// WalkCfg is the configuration of one validation call.
type WalkCfg struct {
	Tag       string                             // tag name requested
	Unscoped  map[string]string                  // rule set given without a type
	PerType   map[reflect.Type]map[string]string // rule sets registered for specific struct types
	CallFns   map[string]bool                    // rule names defined for this call
	GlobalFns map[string]bool                    // globally registered rule names
	// GlobalLevel: name -> the word the function registered LAST under that name prints ("" = "global")
	GlobalLevel map[string]string
	Env         *Env
	RePats      map[string]string // rule item text -> the generator's own pattern
}

// Result of a walk.
type Result struct {
	Seq      []Item // ordered non-group clauses
	Groups   []Exp  // unordered group clauses (emitted last)
	Excluded []string
	// facts for non-triviality classifiers
	Violations   int
	Satisfied    int
	MaxDepth     int
	SawMap       bool
	SawNilElem   bool
	SawPtrPtr    bool
	SawArray     bool
	UnmarkedPop  bool // an unmarked, populated sub-object exists (and was not entered)
	SawUnexp     bool
	SawTime      bool
	NonFirstViol bool
	GroupObjs    map[string]int // object path -> number of groups
	Objects      int
}

var builtinRules = map[string]bool{
	"required": true, "exist": true, "either": true, "botheq": true,
	"to": true, "ge": true, "le": true, "oto": true, "gt": true, "lt": true, "eq": true, "noeq": true,
	"in": true, "include": true, "phone": true, "email": true, "idcard": true, "year": true, "year2month": true,
	"date": true, "datetime": true, "int": true, "ints": true, "float": true, "re": true, "ip": true, "ipv4": true,
	"ipv6": true, "unique": true, "json": true, "prefix": true, "suffix": true, "file": true, "dir": true,
}

// IsBuiltin reports whether name is a documented rule.
func IsBuiltin(name string) bool { return builtinRules[name] }

// ParseItem splits a rule item into key, argument and custom message following
// the documented grammar key[=value][|message].
func ParseItem(item string) (key, arg, msg string) {
	body := item
	if i := strings.Index(item, "|"); i >= 0 {
		body, msg = item[:i], item[i+1:]
	}
	key = body
	if i := strings.Index(body, "="); i >= 0 {
		key, arg = body[:i], body[i+1:]
	}
	return
}

// MsgLabel is the explanation label a custom message gets.
func MsgLabel(msg string) string {
	for _, r := range msg {
		if r >= 0x4e00 && r <= 0x9fa5 {
			return "说明:"
		}
	}
	return "explain:"
}

var timeType = reflect.TypeOf(time.Time{})

// IsEmptyForRequired: zero value, or empty slice / array / map.
func IsEmptyForRequired(v reflect.Value) bool {
	switch v.Kind() {
	case reflect.Slice, reflect.Map, reflect.Array:
		if v.Len() == 0 {
			return true
		}
	}
	return v.IsZero()
}

type walker struct {
	cfg    WalkCfg
	res    *Result
	groups map[string]*grp
	gorder []string
}

type grp struct {
	kind    string
	obj     string
	members []string
	vals    []reflect.Value
	item    string
}

func keyStr(k reflect.Value) string {
	if s, ok := Canon(k); ok {
		return s
	}
	return fmt.Sprintf("%v", k.Interface())
}

// Walk predicts the clauses of validating root (the value passed to the struct
// entry point, already a reflect.Value of the argument).
func Walk(cfg WalkCfg, root reflect.Value) *Result {
	w := &walker{cfg: cfg, res: &Result{GroupObjs: map[string]int{}}, groups: map[string]*grp{}}
	v := root
	for v.Kind() == reflect.Ptr {
		if v.IsNil() {
			w.res.Excluded = append(w.res.Excluded, "nil-root")
			return w.res
		}
		v = v.Elem()
	}
	switch v.Kind() {
	case reflect.Struct:
		w.res.Seq = w.object(v.Type().Name(), v, true, 1)
	case reflect.Slice, reflect.Array:
		for i := 0; i < v.Len(); i++ {
			label := v.Type().Elem().String() + "[" + strconv.Itoa(i) + "]"
			w.res.Seq = append(w.res.Seq, w.element(label, v.Index(i), 1)...)
		}
	case reflect.Map:
		w.res.SawMap = true
		blk := Item{Entries: map[string][]Item{}}
		for it := v.MapRange(); it.Next(); { // (MapRange, not MapIndex: a NaN key cannot be looked up)
			label := "map[" + keyStr(it.Key()) + "]"
			blk.Entries[label] = w.element(label, it.Value(), 1)
		}
		w.res.Seq = append(w.res.Seq, blk)
	default:
		w.res.Excluded = append(w.res.Excluded, "non-struct-root")
	}
	w.finishGroups()
	return w.res
}

// element handles one element of a collection: pointers are followed, nil is
// skipped, non-structs are ignored.
func (w *walker) element(path string, v reflect.Value, depth int) []Item {
	if v.Kind() == reflect.Ptr && v.Type().Elem().Kind() == reflect.Ptr {
		w.res.SawPtrPtr = true
	}
	for v.Kind() == reflect.Ptr {
		if v.IsNil() {
			w.res.SawNilElem = true
			return nil
		}
		v = v.Elem()
	}
	if v.Kind() != reflect.Struct {
		return nil
	}
	return w.object(path, v, false, depth)
}

func (w *walker) ruleSet(ty reflect.Type, outermost bool) map[string]string {
	rm := w.cfg.PerType[ty]
	if outermost && len(rm) == 0 {
		rm = w.cfg.Unscoped
	}
	return rm
}

// object walks the exported, non-time.Time fields of one struct value.
func (w *walker) object(path string, v reflect.Value, outermost bool, depth int) []Item {
	w.res.Objects++
	if depth > w.res.MaxDepth {
		w.res.MaxDepth = depth
	}
	var seq []Item
	ty := v.Type()
	rm := w.ruleSet(ty, outermost)
	for i := 0; i < ty.NumField(); i++ {
		f := ty.Field(i)
		if f.PkgPath != "" {
			w.res.SawUnexp = true
			continue
		}
		if f.Type == timeType {
			w.res.SawTime = true
			continue
		}
		rules := f.Tag.Get(w.cfg.Tag)
		if r := rm[f.Name]; r != "" {
			rules = r
		}
		fv := v.Field(i)
		if rules == "" {
			if nestable(fv) && !fv.IsZero() {
				w.res.UnmarkedPop = true
			}
			continue
		}
		// clauses name the field as Obj.Field; an anonymous outermost type has the
		// empty label, then the field is named alone while its children still hang
		// under "<label>.Field" (probe fact, see DESIGN §4)
		fpath := f.Name
		if path != "" {
			fpath = path + "." + f.Name
		}
		cpath := path + "." + f.Name
		first := true
		marked := false
		for _, item := range SplitOutsideQuotes(rules, ',') {
			if item == "" {
				continue
			}
			key, arg, msg := ParseItem(item)
			if key == "re" { // the message of a re rule follows the closing quote
				msg = ReMsg(item)
			}
			e := Exp{Path: fpath, Obj: path, Field: f.Name, Item: item, Key: key, Msg: msg}
			switch {
			case w.cfg.CallFns[key]:
				if !fv.IsZero() {
					e.Kind, e.Msg = "value", "custom call "+key
					SetEcho(&e, fv)
					seq = append(seq, Item{C: &e})
					w.viol(first)
				}
			case w.cfg.GlobalFns[key]:
				if !fv.IsZero() {
					e.Kind, e.Msg = "value", "custom global "+key
					if lv := w.cfg.GlobalLevel[key]; lv != "" {
						e.Msg = "custom " + lv + " " + key
					}
					SetEcho(&e, fv)
					seq = append(seq, Item{C: &e})
					w.viol(first)
				}
			case !builtinRules[key]:
				e.Kind = "unknown"
				seq = append(seq, Item{C: &e})
				w.viol(first)
			case key == "required":
				if IsEmptyForRequired(fv) {
					e.Kind, e.Echo, e.EchoOK = "value", "", true
					seq = append(seq, Item{C: &e})
					w.viol(first)
				} else {
					w.res.Satisfied++
					if marked {
						w.res.Excluded = append(w.res.Excluded, "double-marker")
					}
					marked = true
					seq = append(seq, w.descend(cpath, fv, depth, false)...)
				}
			case key == "exist":
				if fv.IsZero() {
					break
				}
				if nestableKind(fv) {
					if marked {
						w.res.Excluded = append(w.res.Excluded, "double-marker")
					}
					marked = true
					seq = append(seq, w.descend(cpath, fv, depth, true)...)
				} else {
					e.Kind = "nonsupport"
					seq = append(seq, Item{C: &e})
					w.viol(first)
				}
			case key == "either" || key == "botheq":
				gk := path + "\x00" + item
				g := w.groups[gk]
				if g == nil {
					g = &grp{kind: key, obj: path, item: item}
					w.groups[gk] = g
					w.gorder = append(w.gorder, gk)
					w.res.GroupObjs[path]++
				}
				g.members = append(g.members, fpath)
				g.vals = append(g.vals, fv)
			default:
				if fv.IsZero() {
					break
				}
				if IsEmptyForRequired(fv) {
					// an empty but non-nil slice / map: "empty" for required, yet not the zero
					// value; the property does not decide whether other rules look at it
					w.res.Excluded = append(w.res.Excluded, "empty-non-nil-collection")
					break
				}
				env := w.cfg.Env
				if key == "re" {
					env = &Env{RePat: w.cfg.RePats[item]}
				}
				switch vd := Judge(key, arg, fv, env); vd {
				case OK:
					w.res.Satisfied++
				case Violated:
					e.Kind = "value"
					SetEcho(&e, fv)
					if key == "to" || key == "oto" {
						if _, b, a := SizeVerdict(key, arg, fv); b && a {
							e.Twice = true
							w.res.Excluded = append(w.res.Excluded, "to-min-gt-max")
						}
					}
					seq = append(seq, Item{C: &e})
					w.viol(first)
				case ConfigErr:
					e.Kind = "cfg"
					seq = append(seq, Item{C: &e})
					w.viol(first)
				default:
					w.res.Excluded = append(w.res.Excluded, "undefined:"+key)
				}
			}
			first = false
		}
	}
	return seq
}

func (w *walker) viol(first bool) {
	w.res.Violations++
	if !first {
		w.res.NonFirstViol = true
	}
}

// ReMsg extracts the custom message of a re rule: re='<pattern>'|<message>;
// the pattern ends at the first quote that is not escaped by a backslash.
func ReMsg(item string) string {
	open := strings.Index(item, "'")
	if open < 0 {
		return ""
	}
	for i := open + 1; i < len(item); i++ {
		if item[i] == '\'' && item[i-1] != '\\' {
			rest := item[i+1:]
			if strings.HasPrefix(rest, "|") {
				return rest[1:]
			}
			return ""
		}
	}
	return ""
}

// dropEscapes removes everything an escaping step may add, consume or rewrite (backslashes, the
// characters that are written as letters, and those letters), so that a text and any escaped form
// of it compare equal while another text does not.
func dropEscapes(s string) string {
	return strings.Map(func(r rune) rune {
		switch r {
		case '\\', '\'', '"', 0, '\n', '\r', '\t', 0x1a, '0', 'n', 'r', 't', 'Z':
			return -1
		}
		return r
	}, s)
}

// SetEcho fills the expected echo of a value clause.
func SetEcho(e *Exp, fv reflect.Value) {
	if e.Key == "json" {
		// the echo of json is escaped, and replaced by a placeholder beyond 256 bytes: up to 256 bytes it is
		// the input all the same (how exactly it is escaped is not asserted)
		if fv.Kind() == reflect.String && len(fv.String()) <= 256 {
			e.EchoEsc = "x" + fv.String()
		}
		return
	}
	switch fv.Kind() {
	case reflect.Float32, reflect.Float64:
		e.EchoOK, e.EchoNum = true, true
		e.F32 = fv.Kind() == reflect.Float32
		e.Echo = strconv.FormatFloat(fv.Float(), 'g', -1, 64)
	default:
		if s, ok := Canon(fv); ok {
			e.Echo, e.EchoOK = s, true
		}
	}
}

func nestableKind(v reflect.Value) bool {
	switch v.Kind() {
	case reflect.Ptr, reflect.Struct, reflect.Slice, reflect.Array, reflect.Map:
		return true
	}
	return false
}

func nestable(v reflect.Value) bool {
	t := v.Type()
	for t.Kind() == reflect.Ptr {
		t = t.Elem()
	}
	switch t.Kind() {
	case reflect.Struct:
		return t != timeType
	case reflect.Slice, reflect.Array, reflect.Map:
		e := t.Elem()
		for e.Kind() == reflect.Ptr {
			e = e.Elem()
		}
		return e.Kind() == reflect.Struct && e != timeType
	}
	return false
}

// descend enters a marked, non-empty field.
func (w *walker) descend(path string, v reflect.Value, depth int, viaExist bool) []Item {
	switch v.Kind() {
	case reflect.Ptr:
		if v.Type().Elem().Kind() == reflect.Ptr {
			w.res.SawPtrPtr = true
		}
		for v.Kind() == reflect.Ptr {
			if v.IsNil() {
				w.res.SawNilElem = true
				return nil
			}
			v = v.Elem()
		}
		if v.Kind() != reflect.Struct {
			if viaExist {
				w.res.Excluded = append(w.res.Excluded, "exist-on-pointer-to-scalar")
			}
			return nil
		}
		if v.Type() == timeType {
			return nil
		}
		return w.object(path, v, false, depth+1)
	case reflect.Struct:
		if v.Type() == timeType {
			return nil
		}
		return w.object(path, v, false, depth+1)
	case reflect.Slice, reflect.Array:
		if v.Kind() == reflect.Array {
			w.res.SawArray = true
		}
		var seq []Item
		for i := 0; i < v.Len(); i++ {
			seq = append(seq, w.element(path+"["+strconv.Itoa(i)+"]", v.Index(i), depth+1)...)
		}
		return seq
	case reflect.Map:
		w.res.SawMap = true
		blk := Item{Entries: map[string][]Item{}}
		for it := v.MapRange(); it.Next(); {
			p := path + "[" + keyStr(it.Key()) + "]"
			blk.Entries[p] = w.element(p, it.Value(), depth+1)
		}
		return []Item{blk}
	}
	return nil
}

func (w *walker) finishGroups() {
	for _, gk := range w.gorder {
		g := w.groups[gk]
		if len(g.members) == 1 {
			w.res.Groups = append(w.res.Groups, Exp{Kind: "single", Path: g.members[0], Obj: g.obj, Members: g.members, GKind: g.kind, Item: g.item})
			w.res.Violations++
			continue
		}
		bad := false
		if g.kind == "either" {
			bad = true
			for _, v := range g.vals {
				if !v.IsZero() {
					bad = false
				}
			}
		} else {
			sameType := true
			for _, v := range g.vals[1:] {
				if v.Type() != g.vals[0].Type() {
					sameType = false
				}
				if !reflect.DeepEqual(v.Interface(), g.vals[0].Interface()) {
					bad = true
				}
			}
			if !sameType {
				w.res.Excluded = append(w.res.Excluded, "botheq-mixed-types")
			}
		}
		if bad {
			w.res.Groups = append(w.res.Groups, Exp{Kind: "group", Obj: g.obj, Members: g.members, GKind: g.kind, Item: g.item})
			w.res.Violations++
		} else {
			w.res.Satisfied++
		}
	}
}

// Flatten lists the expected non-group clauses in tree order (map blocks in
// sorted entry order).
func Flatten(seq []Item) []*Exp {
	var out []*Exp
	for _, it := range seq {
		if it.C != nil {
			out = append(out, it.C)
			if it.C.Twice {
				out = append(out, it.C)
			}
			continue
		}
		keys := make([]string, 0, len(it.Entries))
		for k := range it.Entries {
			keys = append(keys, k)
		}
		sort.Strings(keys)
		for _, k := range keys {
			out = append(out, Flatten(it.Entries[k])...)
		}
	}
	return out
}

// Matches reports whether an actual clause is the clause predicted by e.
// strict additionally asserts label/message and echo.
func (e *Exp) Matches(a Clause) (bool, string) {
	switch e.Kind {
	case "value":
		if a.Kind != "value" || a.Path != e.Path {
			return false, "want value clause at " + e.Path
		}
		if e.Msg != "" {
			if a.Label != MsgLabel(e.Msg) || a.Text != e.Msg {
				return false, fmt.Sprintf("want %s %q", MsgLabel(e.Msg), e.Msg)
			}
		} else if a.Label != "explain:" {
			return false, "want default (English-labelled) wording"
		}
		if e.EchoOK {
			if e.EchoNum {
				want, _ := strconv.ParseFloat(e.Echo, 64)
				got, err := strconv.ParseFloat(a.Echo, 64)
				if err != nil {
					return false, fmt.Sprintf("echo %q is not the number %s", a.Echo, e.Echo)
				}
				if e.F32 {
					if float32(got) != float32(want) {
						return false, fmt.Sprintf("echo %q is not the float32 %s", a.Echo, e.Echo)
					}
				} else if got != want {
					return false, fmt.Sprintf("echo %q is not %s", a.Echo, e.Echo)
				}
			} else if a.Echo != e.Echo {
				return false, fmt.Sprintf("echo %q, want %q", a.Echo, e.Echo)
			}
		}
		if e.EchoEsc != "" && dropEscapes(a.Echo) != dropEscapes(e.EchoEsc[1:]) {
			return false, fmt.Sprintf("echo %q is not (an escaped form of) the input %q", a.Echo, e.EchoEsc[1:])
		}
		return true, ""
	case "cfg", "nonsupport":
		if (a.Kind == "field" || a.Kind == "value") && a.Path == e.Path {
			return true, ""
		}
		if e.Obj == "" && a.Kind == "bare" { // anonymous root type: field-error clauses carry no path
			return true, ""
		}
		return false, "want a rule-writing-error clause at " + e.Path
	case "unknown":
		if ((a.Kind == "field" && a.Path == e.Path) || (e.Obj == "" && a.Kind == "bare")) && strings.Contains(a.Text, `"`+e.Key+`"`) {
			return true, ""
		}
		return false, fmt.Sprintf("want unknown-rule clause for %q at %s", e.Key, e.Path)
	case "single":
		if (a.Kind == "field" && a.Path == e.Path) || (e.Obj == "" && a.Kind == "bare") {
			return true, ""
		}
		return false, "want single-member rule-writing error at " + e.Path
	case "group":
		if a.Kind != "group" || len(a.Paths) != len(e.Members) {
			return false, "want group clause listing " + strings.Join(e.Members, ",")
		}
		x := append([]string(nil), a.Paths...)
		y := append([]string(nil), e.Members...)
		sort.Strings(x)
		sort.Strings(y)
		for i := range x {
			if x[i] != y[i] {
				return false, "want group clause listing " + strings.Join(e.Members, ",")
			}
		}
		want := "shouldn't all be empty"
		if e.GKind == "botheq" {
			want = "should be equal"
		}
		if !strings.Contains(a.Text, want) {
			return false, "group clause of the wrong kind"
		}
		return true, ""
	}
	return false, "bad expectation"
}

func (e *Exp) String() string {
	switch e.Kind {
	case "group", "single":
		return fmt.Sprintf("%s(%s %s)", e.Kind, e.GKind, strings.Join(e.Members, ","))
	}
	return fmt.Sprintf("%s(%s %s)", e.Kind, e.Path, e.Item)
}

// Compare checks an error text against the walk result.
//
//	multiset: exactly one clause per expected clause, none extra
//	order:    tree order with map blocks in any entry order, groups last
//
// It returns "" or a description of the first discrepancy.
func Compare(res *Result, errText string, isNil bool, checkOrder bool) string {
	exp := Flatten(res.Seq)
	total := len(exp) + len(res.Groups)
	if isNil {
		if total != 0 {
			return fmt.Sprintf("returned nil but %d clause(s) expected, first: %s", total, firstExp(exp, res.Groups))
		}
		return ""
	}
	if total == 0 {
		return fmt.Sprintf("no rule is violated but the call returned an error: %q", errText)
	}
	act, framing := ParseErr(errText)
	if framing != "" {
		return framing + ": " + strconv.Quote(errText)
	}
	// ---- multiset ----
	used := make([]bool, len(act))
	var missing []string
	match := func(e *Exp) bool {
		for i, a := range act {
			if used[i] {
				continue
			}
			if ok, _ := e.Matches(a); ok {
				used[i] = true
				return true
			}
		}
		return false
	}
	// specific expectations first, loose ones (cfg / nonsupport) last
	var loose []*Exp
	for _, e := range exp {
		if e.Kind == "cfg" || e.Kind == "nonsupport" {
			loose = append(loose, e)
			continue
		}
		if !match(e) {
			missing = append(missing, e.String())
		}
	}
	for i := range res.Groups {
		if !match(&res.Groups[i]) {
			missing = append(missing, res.Groups[i].String())
		}
	}
	for _, e := range loose {
		if !match(e) {
			missing = append(missing, e.String())
		}
	}
	var extra []string
	for i, a := range act {
		if !used[i] {
			extra = append(extra, a.Raw)
		}
	}
	if len(missing) > 0 || len(extra) > 0 {
		return fmt.Sprintf("clause multiset differs: missing %v; unexpected %q; error was %q", missing, extra, errText)
	}
	if !checkOrder {
		return ""
	}
	// ---- order ----
	ng := len(res.Groups)
	for i := len(act) - ng; i < len(act); i++ {
		if i >= 0 && act[i].Kind != "group" && !((act[i].Kind == "field" || act[i].Kind == "bare") && isSingle(res.Groups, act[i])) {
			return fmt.Sprintf("group clauses are not last: clause %d is %q in %q", i, act[i].Raw, errText)
		}
	}
	pos := 0
	if msg := matchSeq(res.Seq, act[:len(act)-ng], &pos); msg != "" {
		return "clause order differs: " + msg + "; error was " + strconv.Quote(errText)
	}
	return ""
}

// bareSingle finds an expected single-member group of the unlabelled outermost
// object that has not been matched yet.
func bareSingle(res *Result, got, want map[string]int) string {
	for i := range res.Groups {
		g := &res.Groups[i]
		if g.Kind == "single" && g.Obj == "" && len(g.Members) == 1 {
			if k := "group " + g.Members[0]; got[k] < want[k] {
				return k
			}
		}
	}
	return ""
}

func isSingle(groups []Exp, a Clause) bool {
	for i := range groups {
		if groups[i].Kind == "single" && (groups[i].Path == a.Path || (groups[i].Obj == "" && a.Kind == "bare")) {
			return true
		}
	}
	return false
}

func firstExp(exp []*Exp, groups []Exp) string {
	if len(exp) > 0 {
		return exp[0].String()
	}
	return groups[0].String()
}

func matchSeq(seq []Item, act []Clause, pos *int) string {
	for _, it := range seq {
		if it.C != nil {
			n := 1
			if it.C.Twice {
				n = 2
			}
			for k := 0; k < n; k++ {
				if *pos >= len(act) {
					return "ran out of clauses, want " + it.C.String()
				}
				if ok, why := it.C.Matches(act[*pos]); !ok {
					return fmt.Sprintf("position %d is %q, %s (%s)", *pos, act[*pos].Raw, why, it.C.String())
				}
				*pos++
			}
			continue
		}
		remaining := map[string][]Item{}
		for k, v := range it.Entries {
			if len(Flatten(v)) > 0 {
				remaining[k] = v
			}
		}
		for len(remaining) > 0 {
			if *pos >= len(act) {
				return "ran out of clauses inside a map block"
			}
			p := act[*pos].Path
			found := ""
			for k := range remaining {
				if p == k || strings.HasPrefix(p, k+".") {
					if len(k) > len(found) {
						found = k
					}
				}
			}
			if found == "" {
				return fmt.Sprintf("position %d (%q) belongs to no remaining map entry", *pos, act[*pos].Raw)
			}
			if msg := matchSeq(remaining[found], act, pos); msg != "" {
				return msg
			}
			delete(remaining, found)
		}
	}
	return ""
}

// ComparePaths checks only reachability: the multiset of (path, message) pairs
// of the value clauses must equal the predicted one (wording, echo, label and
// order are other properties' business).  Expectations without a custom message
// are keyed by path alone.
func ComparePaths(res *Result, errText string, isNil bool) string {
	want := map[string]int{}
	for _, e := range Flatten(res.Seq) {
		want[e.Path+" | "+e.Msg]++
	}
	for i := range res.Groups {
		e := &res.Groups[i]
		m := append([]string(nil), e.Members...)
		sort.Strings(m)
		want["group "+strings.Join(m, ",")]++
	}
	got := map[string]int{}
	if !isNil {
		act, _ := ParseErr(errText)
		for _, a := range act {
			switch a.Kind {
			case "group":
				m := append([]string(nil), a.Paths...)
				sort.Strings(m)
				got["group "+strings.Join(m, ",")]++
			case "value":
				if _, ok := want[a.Path+" | "+a.Text]; ok {
					got[a.Path+" | "+a.Text]++
				} else {
					got[a.Path+" | "]++ // default wording: keyed by path alone
				}
			default:
				if _, ok := want["group "+a.Path]; ok && a.Kind == "field" {
					got["group "+a.Path]++ // single-member group error names its field
				} else if k := bareSingle(res, got, want); a.Kind == "bare" && k != "" {
					got[k]++ // ... but an anonymous outermost type has no label, the clause is then bare
				} else {
					got[a.Path+" | "]++
				}
			}
		}
	}
	var diff []string
	for k, n := range want {
		if got[k] != n {
			diff = append(diff, fmt.Sprintf("%q expected %d time(s), reported %d", k, n, got[k]))
		}
	}
	for k, n := range got {
		if _, ok := want[k]; !ok {
			diff = append(diff, fmt.Sprintf("%q reported %d time(s), not expected (sub-object must not be validated, or path is wrong)", k, n))
		}
	}
	if len(diff) == 0 {
		return ""
	}
	sort.Strings(diff)
	if len(diff) > 6 {
		diff = append(diff[:6], fmt.Sprintf("... %d more", len(diff)-6))
	}
	return "reached set differs: " + strings.Join(diff, "; ") + "; error was " + strconv.Quote(errText)
}
