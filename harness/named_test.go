package harness

import (
	"reflect"

	"pgregory.net/rapid"

	"verifharness/desc"
	"verifharness/lib"
)

// namedOpts configures genNamedCase.
type namedOpts struct {
	roots     []string // candidate root type names
	marks     []string // candidate markers for container fields ("-" = unmarked)
	msgMode   int
	maxDepth  int
	extra     []string // extra rule names (custom / unknown) for scalar fields
	density   int      // 0..10: how many scalar fields get rules
	unscoped  bool     // may add an unscoped rule set
	topShapes []string
}

// genNamedCase draws a call over the named library types with per-type rule sets.
func genNamedCase(t *rapid.T, o namedOpts) *StructCase {
	mg := &msgGen{mode: o.msgMode}
	mapKeyStyle = rapid.SampledFrom([]int{0, 0, 0, 0, 1, 2, 3}).Draw(t, "mapKeyStyle")
	c := &StructCase{PerType: map[string]map[string]string{}}
	rootName := rapid.SampledFrom(o.roots).Draw(t, "root")
	// rule sets for every type reachable from the root
	for _, name := range reachable(rootName) {
		if rapid.IntRange(0, 9).Draw(t, "hasRM"+name) < 9 {
			c.PerType[name] = genRMFor(t, lib.Types[name], mg, o.marks, o.extra, o.density)
		}
	}
	if o.unscoped && rapid.IntRange(0, 2).Draw(t, "unscoped") == 0 {
		c.Unscoped = genRMFor(t, lib.Types[rootName], mg, o.marks, o.extra, o.density)
	}
	rt := lib.Types[rootName]
	elem := desc.Named(rootName)
	depth := rapid.IntRange(1, o.maxDepth).Draw(t, "depth")
	shapes := o.topShapes
	if len(shapes) == 0 {
		shapes = []string{"ptr", "ptr", "ptr", "val", "ptrptr", "slice", "sliceptr", "array", "mapstr", "mapint", "ptrslice", "ptrmap", "arrayval"}
	}
	one := func() desc.V { return genValueRT(t, rt, 0, depth) }
	many := func(ptr bool) []desc.V {
		n := rapid.IntRange(0, 3).Draw(t, "topLen")
		var out []desc.V
		for i := 0; i < n; i++ {
			if ptr {
				if rapid.IntRange(0, 3).Draw(t, "topNil") == 0 {
					out = append(out, desc.V{Nil: true})
				} else {
					out = append(out, desc.V{E: []desc.V{one()}})
				}
			} else {
				out = append(out, one())
			}
		}
		return out
	}
	switch rapid.SampledFrom(shapes).Draw(t, "topShape") {
	case "val":
		c.Root, c.Val = elem, one()
	case "ptr":
		c.Root, c.Val = desc.Ptr(elem), desc.V{E: []desc.V{one()}}
	case "ptrptr":
		c.Root, c.Val = desc.Ptr(desc.Ptr(elem)), desc.V{E: []desc.V{{E: []desc.V{one()}}}}
	case "ptrslice": // pointer to a slice of structs
		c.Root, c.Val = desc.Ptr(desc.Slice(elem)), desc.V{E: []desc.V{{E: many(false)}}}
	case "ptrmap": // pointer to a map of struct pointers
		es := many(true)
		v := desc.V{E: es}
		for i := range es {
			v.K = append(v.K, desc.Str(string(rune('p'+i))))
		}
		c.Root, c.Val = desc.Ptr(desc.Map(desc.Scalar("string"), desc.Ptr(elem))), desc.V{E: []desc.V{v}}
	case "arrayval": // array of struct values
		c.Root, c.Val = desc.Array(3, elem), desc.V{E: []desc.V{one(), zeroDesc(rt), one()}}
	case "slice":
		c.Root, c.Val = desc.Slice(elem), desc.V{E: many(false)}
	case "sliceptr":
		c.Root, c.Val = desc.Slice(desc.Ptr(elem)), desc.V{E: many(true)}
	case "array":
		c.Root, c.Val = desc.Array(2, desc.Ptr(elem)), desc.V{E: []desc.V{{E: []desc.V{one()}}, {Nil: rapid.Bool().Draw(t, "arrNil"), E: []desc.V{one()}}}}
	case "mapstr":
		es := many(true)
		v := desc.V{E: es}
		for i := range es {
			v.K = append(v.K, desc.Str(string(rune('p'+i))))
		}
		c.Root, c.Val = desc.Map(desc.Scalar("string"), desc.Ptr(elem)), v
	case "mapint":
		es := many(false)
		v := desc.V{E: es}
		for i := range es {
			v.K = append(v.K, desc.V{I: int64(i*3 + 2)})
		}
		c.Root, c.Val = desc.Map(desc.Scalar("int"), elem), v
	}
	if rootName == "Tree" && rapid.Bool().Draw(t, "fillHidden") {
		h := genValueRT(t, lib.Types["Leaf"], 1, 1)
		c.Hidden = &h
	}
	return c
}

// reachable lists the named struct types reachable from a root type.
func reachable(root string) []string {
	seen := map[reflect.Type]bool{}
	var order []string
	var visit func(rt reflect.Type)
	visit = func(rt reflect.Type) {
		for rt.Kind() == reflect.Ptr || rt.Kind() == reflect.Slice || rt.Kind() == reflect.Array || rt.Kind() == reflect.Map {
			rt = rt.Elem()
		}
		if rt.Kind() != reflect.Struct || seen[rt] {
			return
		}
		for name, ty := range lib.Types {
			if ty == rt {
				seen[rt] = true
				order = append(order, name)
				for i := 0; i < rt.NumField(); i++ {
					visit(rt.Field(i).Type)
				}
				return
			}
		}
	}
	visit(lib.Types[root])
	// deterministic order (map iteration above only looks a type up)
	for i := 1; i < len(order); i++ {
		for j := i; j > 0 && order[j] < order[j-1]; j-- {
			order[j], order[j-1] = order[j-1], order[j]
		}
	}
	return order
}
