package harness

import (
	"encoding/json"
	"fmt"
	"net/url"
	"reflect"
	"strconv"
	"strings"
	"sync"
	"time"
	_ "time/tzdata" // zone data for ScalarCase.TZ, independent of the machine
	"unsafe"

	"gitee.com/xuesongtao/protoc-go-valid/valid"

	"verifharness/desc"
	"verifharness/ev"
	"verifharness/model"
)

// ScalarCase: one value under a rule list, presented through one carrier
// (entry point).  Shared by C01, C03, C05, C15, C18.
type ScalarCase struct {
	T       desc.T            `json:"t"`   // scalar kind, or slice/array of scalars
	Val     desc.V            `json:"val"` // the value
	Rules   []string          `json:"rules"`
	Carrier string            `json:"carrier"`           // var | tag | rm | map | mapiface | listmap | url | urlenc
	Missing bool              `json:"missing,omitempty"` // map / url: the entry is absent from the input
	RePats  map[string]string `json:"repats,omitempty"`
	// TZ: the process's local time zone while the call runs (time.Local; "" = unchanged, UTC).
	// Only set by single-threaded checks.
	TZ     string      `json:"tz,omitempty"`
	Others [][2]string `json:"others,omitempty"` // url: other parameters (name, value); map: other entries
	Pos    int         `json:"pos,omitempty"`    // url: position of our parameter among the others
	// Again: url: values of further occurrences of OUR parameter, placed right before ours
	// (?k=&k=abc): every occurrence is judged on its own
	Again []string `json:"again,omitempty"`
	// BadSrc (var carrier, with NoModel): the call hands over something Var rejects before it
	// validates - "nil", "typednil" (a nil *T), "struct", "map" - together with its rules
	BadSrc string `json:"badsrc,omitempty"`
	// Lead: tag / rm carriers: fields declared BEFORE ours in the carrier struct, none with a rule:
	// "time" (a time.Time), "unexported", "plain" (an exported string), "all" (the three)
	Lead string `json:"lead,omitempty"`
	// NoModel: the rule text is malformed (an unbalanced quote): what it means is not documented, so
	// only the metamorphic oracles apply (same call alone / in a fresh state / concurrently)
	NoModel bool `json:"nomodel,omitempty"`
	// Bare: url: an EMPTY value of ours is written as the bare name, without '='
	Bare bool `json:"bare,omitempty"`
	// Plus: url (the raw form): blanks of our value are written as '+' (form encoding) - the URL
	// then holds no '%' at all, and the value is still the one with blanks
	Plus bool `json:"plus,omitempty"`
	// listmap: one flag per list element, true = that element lacks our key
	// (nil = the list holds the same map twice, present or missing per Missing)
	ListMissing []bool `json:"list_missing,omitempty"`
	// rule names defined for this call only (VVar/VMap/VUrl.SetValidFn, MapFn, StructForFns)
	CallFns []string `json:"callfns,omitempty"`
	// tag carrier: rule text of an earlier call on the same struct type that overrides the field's rule
	Decoy string `json:"decoy,omitempty"`
	// the argument is handed over through a pointer (*T for Var, *map / *[]map for Map, *string for Url, **struct for Struct)
	ViaPtr bool `json:"viaptr,omitempty"`
	// tag carrier: the struct holding the field sits this many levels below the validated
	// object (each level: a pointer field In marked required)
	Nest int `json:"nest,omitempty"`
	// builder API (map, url, rm carriers without per-call functions): the rule map is handed to SetRule
	// while still empty and filled afterwards, before Valid (a rule map is a Go map: the validator sees it live)
	LateRule bool `json:"laterule,omitempty"`
	// Key: map / url carriers: the name of our entry ("" = scalarKey).  Names that look like other
	// names with something appended or removed ("ids[]", "k.x") are names of their own.
	Key string `json:"key,omitempty"`
	// Near: a further entry / parameter no rule mentions, named like ours but for a suffix or the case
	Near string `json:"near,omitempty"`
	// Common (var carrier): the first rules of the list are the shared prefix of that name; the validator is built
	// as NewVVar().SetRules(prefix...).SetRules(own...) where prefix is ONE slice per process (with spare
	// capacity) that every such call spreads into the first SetRules (callers keep their common rules in one place)
	Common string `json:"common,omitempty"`
	// Under (rm carrier): the field also carries a TAG with this rule text, which the rule map of the call replaces
	Under string `json:"under,omitempty"`
	noDup bool
}

// commonRules: the shared rule prefixes.
var commonRules = map[string][]string{"A": {"required|common A"}, "B": {"noeq=77777|common B", "required|common B"}}

var sharedPrefix struct {
	sync.Mutex
	m map[string][]string
}

// sharedPrefixSlice returns the process-wide slice of a prefix (len = its rules, cap = len + 8).
func sharedPrefixSlice(name string) []string {
	sharedPrefix.Lock()
	defer sharedPrefix.Unlock()
	if sharedPrefix.m == nil {
		sharedPrefix.m = map[string][]string{}
	}
	s, ok := sharedPrefix.m[name]
	if !ok {
		s = make([]string, len(commonRules[name]), len(commonRules[name])+8)
		copy(s, commonRules[name])
		sharedPrefix.m[name] = s
	}
	return s
}

// k is the name of our map entry / URL parameter.
func (c *ScalarCase) k() string {
	if c.Key != "" {
		return c.Key
	}
	return scalarKey
}

// scalarKeys: names for our entry other than the plain one, each with a name an implementation that
// "normalises" parameter names would confuse it with (that one is added as an unrelated entry).
var scalarKeys = [][2]string{{"ids[]", "ids"}, {"ids", "ids[]"}, {"k[0]", "k"}, {"k.x", "k"}, {"K", "k"}, {"k", "K"}, {"kk", "k"},
	{"user_id", "userid"}, {"user-id", "user_id"}, {"用户", "用"}, {"k[]", "k"}, {"id", "ID"}, {"a[b]", "a"}, {"k1", "k"}}

func (c *ScalarCase) callFn(name string) bool {
	for _, n := range c.CallFns {
		if n == name {
			return true
		}
	}
	return false
}

// Carriers lists every way a scalar can be presented.
var Carriers = []string{"var", "tag", "rm", "map", "mapiface", "listmap", "url", "urlenc"}

const scalarKey = "k" // map key / url parameter / field name "K"

// sizeAliases: names under which a call registers the library's exported size-rule functions
// (valid.To ... valid.NoEq) - a rule function judges by what it is, not by the name it runs under.
var sizeAliases = map[string]string{"xto": "to", "xge": "ge", "xle": "le", "xoto": "oto", "xgt": "gt", "xlt": "lt", "xeq": "eq", "xnoeq": "noeq"}

var sizeAliasFns = map[string]valid.CommonValidFn{"xto": valid.To, "xge": valid.Ge, "xle": valid.Le, "xoto": valid.OTo, "xgt": valid.Gt, "xlt": valid.Lt, "xeq": valid.Eq, "xnoeq": valid.NoEq}

// urlNoValue marks an entry of ScalarCase.Others that is written without '=' (a bare flag).
const urlNoValue = "\x00no-value"

// oddSegments: query segments that carry no parameter of ours (empty, bare, name-less).
var oddSegments = [][2]string{{"", ""}, {"flag", urlNoValue}, {"", "v"}, {"", ""}}

func (c *ScalarCase) rules() string { return strings.Join(c.Rules, ",") }

func (c *ScalarCase) key() string {
	b, _ := json.Marshal(c)
	return string(b)
}

// urlSafe reports whether a string value can be carried by the URL walker
// (it decodes the whole URL before splitting, as its own tests do).
func urlSafe(s string) bool {
	return !strings.ContainsAny(s, "&=?#%+") && s == strings.ToValidUTF8(s, "")
}

// carrierOK reports whether the carrier can carry the case at all.
func (c *ScalarCase) carrierOK() bool {
	switch c.Carrier {
	case "url", "urlenc":
		if c.T.K != "string" {
			return false
		}
		s := c.Val.S
		if c.Val.SB != nil {
			// bytes that are no valid UTF-8 travel percent-encoded (text in GBK / Latin-1); the raw form cannot carry them
			return c.Carrier == "urlenc" && urlSafe(strings.NewReplacer("#", "", "?", "").Replace(strings.ToValidUTF8(string(c.Val.SB), "")))
		}
		if c.Carrier == "urlenc" {
			// in the wholly percent-encoded form '#' and '?' inside a value are unambiguous
			// (%23, %3F); '&', '=' and '+' stay excluded: the walker decodes the whole
			// URL before it splits, so such values cannot be carried (DESIGN 5, C18 X)
			// (a '%' inside the value travels as %25 and is a '%' again after the one decoding there is)
			return urlSafe(strings.NewReplacer("#", "", "?", "", "%", "").Replace(s))
		}
		return urlSafe(s)
	case "map", "mapiface", "listmap":
		return c.T.Elem == nil && c.T.K != "struct" && c.T.K != "time"
	case "var":
		if c.T.K == "struct" || c.T.K == "map" || c.T.K == "ptr" || c.T.K == "time" {
			return false
		}
		// documented: single values or slices / arrays of int, float, bool, string
		if c.T.Elem != nil && (c.T.Elem.K == "struct" || c.T.Elem.Elem != nil) {
			return false
		}
	}
	return true
}

// path is the path the carrier prints for our value ("" = none).
func (c *ScalarCase) path() string {
	switch c.Carrier {
	case "var":
		return ""
	case "tag", "rm":
		if c.Carrier == "tag" && c.nested() {
			return strings.Repeat(".In", c.Nest) + ".K"
		}
		return "K"
	case "map", "mapiface":
		return "map[" + c.k() + "]"
	case "listmap":
		return "[0]map[" + c.k() + "]" // (and the same clauses again for [1]: the list holds the map twice)
	}
	return c.k()
}

// leadFields: the rule-less fields declared before ours in the carrier struct.
func (c *ScalarCase) leadFields() []desc.F {
	var fs []desc.F
	if c.nested() {
		return nil
	}
	if c.Lead == "time" || c.Lead == "all" {
		fs = append(fs, desc.F{Name: "T0", T: desc.Scalar("time")})
	}
	if c.Lead == "unexported" || c.Lead == "all" {
		fs = append(fs, desc.F{Name: "u0", T: desc.Scalar("int")})
	}
	if c.Lead == "plain" || c.Lead == "all" {
		fs = append(fs, desc.F{Name: "Z0", T: desc.Scalar("string")})
	}
	if (c.Lead == "sub" || c.Lead == "psub") && !c.callFn("exist") {
		// a populated sub-object under a marker of nested validation, declared before our field (it has no rules of
		// its own: the descent into it reports nothing and leaves our field's rules alone)
		inner := desc.T{K: "struct", Fields: []desc.F{{Name: "N", T: desc.Scalar("int")}, {Name: "S", T: desc.Scalar("string")}}}
		if c.Lead == "sub" {
			fs = append(fs, desc.F{Name: "Sub0", T: inner, Tags: map[string]string{"valid": "exist"}})
		} else {
			mark := "required"
			if c.callFn("required") {
				mark = "exist" // (a function of the call named required stands for the marker too: C16's subject)
			}
			fs = append(fs, desc.F{Name: "Sub0", T: desc.Ptr(inner), Tags: map[string]string{"valid": mark}},
				desc.F{Name: "Subs0", T: desc.Slice(inner), Tags: map[string]string{"valid": "exist"}})
		}
	}
	if c.Lead == "wide" {
		// our field is the 261st of its struct (whatever indexes fields in a byte wraps around)
		for i := 0; i < 260; i++ {
			fs = append(fs, desc.F{Name: fmt.Sprintf("W%03d", i), T: desc.Scalar("string")})
		}
	}
	return fs
}

// fillLead gives the leading fields non-zero values (a rule applied to the wrong slot would see them).
func (c *ScalarCase) fillLead(st reflect.Value) {
	if f := st.FieldByName("T0"); f.IsValid() {
		f.Set(reflect.ValueOf(time.Unix(1700000000, 0).UTC()))
	}
	if f := st.FieldByName("Z0"); f.IsValid() {
		f.SetString("lead value 测试")
	}
	if f := st.FieldByName("W004"); f.IsValid() {
		for i := 0; i < 260; i++ {
			st.Field(i).SetString("w")
		}
	}
	if f := st.FieldByName("Sub0"); f.IsValid() {
		in := f
		if f.Kind() == reflect.Ptr {
			f.Set(reflect.New(f.Type().Elem()))
			in = f.Elem()
		}
		in.Field(0).SetInt(3)
		in.Field(1).SetString("sub value")
	}
	if f := st.FieldByName("Subs0"); f.IsValid() {
		f.Set(reflect.MakeSlice(f.Type(), 2, 2))
		f.Index(1).Field(0).SetInt(5)
	}
	if f := st.FieldByName("u0"); f.IsValid() {
		reflect.NewAt(f.Type(), unsafe.Pointer(f.UnsafeAddr())).Elem().SetInt(77)
	}
}

// value materialises the Go value.
func (c *ScalarCase) value() reflect.Value { return desc.Build(desc.Type(c.T), c.Val) }

// prepare builds the argument of the call (value, carrier object, rule map)
// and returns a closure that performs nothing but the library call, so that
// concurrent checks can build everything before the goroutines start.
func (c *ScalarCase) prepare() func() error { return c.prepareV(nil) }

// prepareV is prepare; it also hands out the value it built for our entry (the memory the call works on).
func (c *ScalarCase) prepareV(out *reflect.Value) func() error {
	v := c.value()
	if out != nil {
		*out = v
	}
	rules := c.rules()
	key := c.k()
	switch c.Carrier {
	case "var":
		src := c.viaPtr(v)
		switch c.BadSrc {
		case "nil":
			src = nil
		case "typednil":
			src = reflect.Zero(reflect.PtrTo(v.Type())).Interface()
		case "struct":
			src = struct{ A string }{"x"}
		case "map":
			src = map[string]string{"k": "v"}
		}
		rs := append([]string(nil), c.Rules...)
		if pre := commonRules[c.Common]; c.Common != "" && len(rs) >= len(pre) {
			shared, own := sharedPrefixSlice(c.Common), rs[len(pre):]
			fns := append([]string(nil), c.CallFns...)
			return func() error {
				vv := valid.NewVVar().SetRules(shared...).SetRules(own...)
				for _, n := range fns {
					vv.SetValidFn(n, perCallFn(n))
				}
				return vv.Valid(src)
			}
		}
		if len(c.CallFns) > 0 {
			fns := append([]string(nil), c.CallFns...)
			return func() error {
				vv := valid.NewVVar().SetRules(rs...)
				for _, n := range fns {
					vv.SetValidFn(n, perCallFn(n))
				}
				return vv.Valid(src)
			}
		}
		return func() error { return valid.Var(src, rs...) }
	case "tag":
		st := desc.T{K: "struct", Fields: append(c.leadFields(), desc.F{Name: "K", T: c.T, Tags: map[string]string{"valid": rules}})}
		sv := reflect.New(desc.Type(st))
		c.fillLead(sv.Elem())
		sv.Elem().FieldByName("K").Set(v)
		if c.nested() {
			for i := 0; i < c.Nest; i++ {
				st = desc.T{K: "struct", Fields: []desc.F{{Name: "In", T: desc.Ptr(st), Tags: map[string]string{"valid": "required"}}}}
				outer := reflect.New(desc.Type(st))
				outer.Elem().Field(0).Set(sv)
				sv = outer
			}
		}
		src := c.viaPtr(sv)
		if len(c.CallFns) > 0 {
			fns := append([]string(nil), c.CallFns...)
			return func() error {
				fm := valid.Name2FnMap{}
				for _, n := range fns {
					fm[n] = perCallFn(n)
				}
				return valid.StructForFns(src, nil, fm)
			}
		}
		if c.Decoy != "" {
			decoy := c.Decoy
			sv2 := reflect.New(sv.Type().Elem())
			c.fillLead(sv2.Elem())
			sv2.Elem().FieldByName("K").Set(v)
			src2 := sv2.Interface()
			return func() error {
				_ = valid.StructForFn(src2, valid.RM{"K": decoy})
				return valid.Struct(src)
			}
		}
		return func() error { return valid.Struct(src) }
	case "rm":
		kf := desc.F{Name: "K", T: c.T}
		if c.Under != "" {
			kf.Tags = map[string]string{"valid": c.Under}
		}
		st := desc.T{K: "struct", Fields: append(c.leadFields(), kf)}
		sv := reflect.New(desc.Type(st))
		c.fillLead(sv.Elem())
		sv.Elem().FieldByName("K").Set(v)
		src := c.viaPtr(sv)
		rs := append([]string(nil), c.Rules...)
		if len(c.CallFns) > 0 {
			fns := append([]string(nil), c.CallFns...)
			return func() error {
				fm := valid.Name2FnMap{}
				for _, n := range fns {
					fm[n] = perCallFn(n)
				}
				return valid.StructForFns(src, valid.NewRule().Set("K", rs...), fm)
			}
		}
		if c.LateRule {
			return func() error {
				rm := valid.NewRule()
				vs := valid.NewVStruct().SetRule(rm)
				rm.Set("K", rs...)
				return vs.Valid(src)
			}
		}
		return func() error { return valid.StructForFn(src, valid.NewRule().Set("K", rs...)) }
	case "map", "mapiface", "listmap":
		et := v.Type()
		if c.Carrier == "mapiface" {
			et = reflect.TypeOf((*interface{})(nil)).Elem()
		}
		m := reflect.MakeMap(reflect.MapOf(reflect.TypeOf(""), et))
		if !c.Missing {
			m.SetMapIndex(reflect.ValueOf(key), v)
		}
		for _, o := range c.Others {
			if c.Carrier == "mapiface" {
				m.SetMapIndex(reflect.ValueOf(o[0]), reflect.ValueOf(o[1]))
			} else if o[1] != "" {
				m.SetMapIndex(reflect.ValueOf(o[0]), v) // an entry no rule mentions, holding the same value
			} else {
				m.SetMapIndex(reflect.ValueOf(o[0]), reflect.Zero(et))
			}
		}
		if c.Near != "" {
			if c.Carrier == "mapiface" {
				m.SetMapIndex(reflect.ValueOf(c.Near), reflect.ValueOf("zz"))
			} else {
				m.SetMapIndex(reflect.ValueOf(c.Near), v)
			}
		}
		src := c.viaPtr(m)
		if c.Carrier == "listmap" && len(c.ListMissing) > 0 {
			l := reflect.MakeSlice(reflect.SliceOf(m.Type()), len(c.ListMissing), len(c.ListMissing))
			for i, miss := range c.ListMissing {
				mi := reflect.MakeMap(m.Type())
				if !miss {
					mi.SetMapIndex(reflect.ValueOf(key), v)
				}
				if c.Near != "" {
					mi.SetMapIndex(reflect.ValueOf(c.Near), v)
				}
				l.Index(i).Set(mi)
			}
			src = c.viaPtr(l)
		} else if c.Carrier == "listmap" {
			l := reflect.MakeSlice(reflect.SliceOf(m.Type()), 2, 2)
			l.Index(0).Set(m)
			l.Index(1).Set(m)
			src = c.viaPtr(l)
		}
		if len(c.CallFns) > 0 {
			fns := append([]string(nil), c.CallFns...)
			return func() error {
				fm := valid.Name2FnMap{}
				for _, n := range fns {
					fm[n] = perCallFn(n)
				}
				return valid.MapFn(src, valid.RM{key: rules}, fm)
			}
		}
		if c.LateRule {
			return func() error {
				rm := valid.RM{"zz": "required"} // (SetRule of an empty map is "no rules": a placeholder entry, removed again)
				vm := valid.NewVMap().SetRule(rm)
				rm[key] = rules
				delete(rm, "zz")
				return vm.Valid(src)
			}
		}
		return func() error { return valid.Map(src, valid.RM{key: rules}) }
	case "url", "urlenc":
		var params []string
		for _, o := range c.Others {
			switch {
			case o[0] == "" && o[1] == "":
				params = append(params, "") // an empty segment (?&k=.. or ..&&k=..)
			case o[1] == urlNoValue:
				params = append(params, o[0]) // a segment without '='
			default:
				params = append(params, o[0]+"="+o[1])
			}
		}
		if !c.Missing {
			var ours []string
			for _, a := range c.Again {
				ours = append(ours, key+"="+a)
			}
			if c.Bare && v.String() == "" {
				ours = append(ours, key) // written bare, without '=': an empty value all the same
			} else {
				ours = append(ours, key+"="+v.String())
			}
			if c.Plus && c.Carrier == "url" {
				for i := range ours {
					ours[i] = strings.ReplaceAll(ours[i], " ", "+")
				}
			}
			pos := c.Pos
			if pos > len(params) {
				pos = len(params)
			}
			params = append(params[:pos], append(ours, params[pos:]...)...)
		}
		if c.Near != "" {
			params = append(params, c.Near+"=zz")
		}
		u := "http://test.com/a/b"
		if len(params) > 0 {
			u += "?" + strings.Join(params, "&")
		}
		if c.Carrier == "urlenc" {
			u = url.QueryEscape(u)
		}
		var usrc interface{} = u
		if c.ViaPtr {
			usrc = &u
		}
		if len(c.CallFns) > 0 {
			fns := append([]string(nil), c.CallFns...)
			return func() error {
				vu := valid.NewVUrl().SetRule(valid.RM{key: rules})
				for _, n := range fns {
					vu.SetValidFn(n, perCallFn(n))
				}
				return vu.Valid(usrc)
			}
		}
		if c.LateRule {
			return func() error {
				rm := valid.NewRule()
				vu := valid.NewVUrl().SetRule(rm)
				rm[key] = rules
				return vu.Valid(usrc)
			}
		}
		return func() error { return valid.Url(usrc, valid.RM{key: rules}) }
	}
	panic("bad carrier " + c.Carrier)
}

// nested: deep placement applies to plain tag-carried cases only.
func (c *ScalarCase) nested() bool { return c.Nest > 0 && c.Decoy == "" && len(c.CallFns) == 0 }

// viaPtr returns the value as interface{}, behind one more pointer if the case says so.
func (c *ScalarCase) viaPtr(v reflect.Value) interface{} {
	if !c.ViaPtr {
		return v.Interface()
	}
	p := reflect.New(v.Type())
	p.Elem().Set(v)
	return p.Interface()
}

// run presents the value through the carrier and returns the error text.
func (c *ScalarCase) run() (errText string, isNil bool, panicked interface{}) {
	var err error
	if c.TZ != "" {
		if loc, lerr := time.LoadLocation(c.TZ); lerr == nil {
			old := time.Local
			time.Local = loc
			defer func() { time.Local = old }()
		}
	}
	panicked = ev.Guard(func() { err = c.prepare()() })
	if err == nil {
		return "", true, panicked
	}
	return err.Error(), false, panicked
}

// expect predicts the clauses for our value from the documentation alone.
func (c *ScalarCase) expect() *model.Result {
	if c.Carrier == "listmap" && len(c.ListMissing) > 0 {
		// every list element is judged on its own
		out := &model.Result{GroupObjs: map[string]int{}}
		for i, miss := range c.ListMissing {
			cc := *c
			cc.ListMissing, cc.Missing, cc.noDup = nil, miss, true
			r := cc.expect()
			for _, it := range r.Seq {
				e := *it.C
				e.Path = strings.Replace(e.Path, "[0]map[", "["+strconv.Itoa(i)+"]map[", 1)
				out.Seq = append(out.Seq, model.Item{C: &e})
			}
			out.Violations += r.Violations
			out.Satisfied += r.Satisfied
			out.NonFirstViol = out.NonFirstViol || r.NonFirstViol
			out.Excluded = append(out.Excluded, r.Excluded...)
		}
		return out
	}
	if len(c.Again) > 0 && (c.Carrier == "url" || c.Carrier == "urlenc") && !c.Missing {
		// every occurrence of the parameter is judged on its own, in the order of the query
		out := &model.Result{GroupObjs: map[string]int{}}
		for i := 0; i <= len(c.Again); i++ {
			cc := *c
			cc.Again = nil
			if i < len(c.Again) {
				cc.T, cc.Val = desc.Scalar("string"), desc.Str(c.Again[i])
			}
			r := cc.expect()
			out.Seq = append(out.Seq, r.Seq...)
			out.Violations += r.Violations
			out.Satisfied += r.Satisfied
			out.NonFirstViol = out.NonFirstViol || r.NonFirstViol
			out.Excluded = append(out.Excluded, r.Excluded...)
		}
		return out
	}
	res := &model.Result{GroupObjs: map[string]int{}}
	v := c.value()
	path := c.path()
	obj := ""
	first := true
	structCarrier := c.Carrier == "tag" || c.Carrier == "rm"
	for _, item := range model.SplitOutsideQuotes(c.rules(), ',') {
		if item == "" {
			continue
		}
		key, arg, msg := model.ParseItem(item)
		if key == "re" {
			msg = model.ReMsg(item)
		}
		e := model.Exp{Path: path, Obj: obj, Field: "K", Item: item, Key: key, Msg: msg}
		add := func(kind string) {
			e.Kind = kind
			ee := e
			res.Seq = append(res.Seq, model.Item{C: &ee})
			res.Violations++
			if !first {
				res.NonFirstViol = true
			}
		}
		custom := ""
		if lib, ok := sizeAliases[key]; ok && c.callFn(key) {
			// the library's own exported rule function, given for this call under another name:
			// it judges like the rule it implements
			key = lib
			e.Key = lib
		} else if c.callFn(key) {
			custom = "custom call " + key
		} else if globalFnNames[key] {
			custom = "custom global " + key
		}
		switch {
		case custom != "":
			// a function given for the call, else a globally registered one: skipped on an empty value
			empty := c.Missing || v.IsZero()
			if !empty {
				e.Msg = custom
				model.SetEcho(&e, v)
				add("value")
			}
		case !model.IsBuiltin(key):
			if !c.Missing {
				add("unknown")
			}
		case key == "required":
			empty := c.Missing
			if !c.Missing {
				switch c.Carrier {
				case "url", "urlenc":
					empty = v.String() == ""
				default:
					empty = model.IsEmptyForRequired(v)
				}
			}
			if empty {
				e.Echo, e.EchoOK = "", true
				add("value")
			} else {
				res.Satisfied++
			}
		case key == "exist":
			if c.Missing {
				break
			}
			if !structCarrier {
				add("cfg") // "no support"
			} else if !v.IsZero() {
				switch v.Kind() {
				case reflect.Slice, reflect.Array, reflect.Map, reflect.Struct:
					// entered; the harness's inner types carry no rules
				case reflect.Ptr:
					pt := v.Type()
					for pt.Kind() == reflect.Ptr {
						pt = pt.Elem()
					}
					if pt.Kind() != reflect.Struct {
						res.Excluded = append(res.Excluded, "exist-on-pointer-to-scalar")
					}
				default:
					add("nonsupport")
				}
			}
		case key == "either" || key == "botheq":
			if c.Missing {
				break
			}
			if c.Carrier == "var" {
				add("cfg")
			} else {
				res.Excluded = append(res.Excluded, "group-rule-in-scalar-case")
			}
		default:
			if c.Missing || v.IsZero() {
				break
			}
			if model.IsEmptyForRequired(v) {
				res.Excluded = append(res.Excluded, "empty-non-nil-collection")
				break
			}
			if !scalarOrScalarSlice(v) {
				// structs, pointers, maps under a non-required rule: outside every listed property
				res.Excluded = append(res.Excluded, "non-scalar-under-rule")
				break
			}
			env := fsEnv
			if key == "re" {
				env = &model.Env{RePat: c.RePats[item]}
			}
			switch vd := model.Judge(key, arg, v, env); vd {
			case model.OK:
				res.Satisfied++
			case model.Violated:
				model.SetEcho(&e, v)
				if key == "to" || key == "oto" {
					if _, b, a := model.SizeVerdict(key, arg, v); b && a {
						e.Twice = msg == ""
					}
				}
				add("value")
			case model.ConfigErr:
				add("cfg")
			default:
				res.Excluded = append(res.Excluded, "undefined:"+key)
			}
		}
		first = false
	}
	if c.Carrier == "listmap" && !c.noDup {
		n := len(res.Seq)
		for i := 0; i < n; i++ {
			e := *res.Seq[i].C
			e.Path = strings.Replace(e.Path, "[0]map[", "[1]map[", 1)
			res.Seq = append(res.Seq, model.Item{C: &e})
		}
		res.Violations *= 2
	}
	if c.Carrier == "var" && len(res.Seq) == 0 && c.rules() == "" {
		res.Excluded = append(res.Excluded, "no-rule")
	}
	return res
}

// ifaceKnown implements the class predicate of KF-iface: the carrier is
// map[string]interface{} and the entry holds a non-nil value.  The map walker
// never unwraps the interface, so rules see a value of kind Interface: size
// rules stay silent, string rules answer "it must is string", required never
// fires.  Only the clauses of that one entry are excused; a panic is not.
func (c *ScalarCase) ifaceKnown() bool {
	if c.Carrier != "mapiface" || c.Missing {
		return false
	}
	return ev.Known("KF-iface")
}

func (c *ScalarCase) String() string { return fmt.Sprintf("%s %s %v", c.Carrier, c.T.K, c.Rules) }

func scalarOrScalarSlice(v reflect.Value) bool {
	k := v.Kind()
	if k == reflect.Slice || k == reflect.Array {
		k = v.Type().Elem().Kind()
	}
	switch k {
	case reflect.Struct, reflect.Ptr, reflect.Map, reflect.Slice, reflect.Array, reflect.Interface, reflect.Func, reflect.Chan:
		return false
	}
	return true
}
