package harness

import (
	"fmt"
	"strings"

	"pgregory.net/rapid"
)

// ---- a generative model of Go source files in the shape protoc-gen-go emits and beyond (C06, C07, C19) ----

// TagItem is one key:"value" item of a struct tag.
type TagItem struct {
	K string `json:"k"`
	V string `json:"v"`
}

// SrcField is one struct field.
type SrcField struct {
	Names   string    `json:"names"`            // "A", "A, B" or "" (embedded: the type is the name)
	Type    string    `json:"type"`             // type expression (may span lines for anonymous structs)
	HasTag  bool      `json:"hastag"`           // has a tag literal
	Tag     []TagItem `json:"tag,omitempty"`    // existing items
	TagSep  []string  `json:"tagsep,omitempty"` // spacing before each item and after the last (len = len(Tag)+1)
	Doc     string    `json:"doc,omitempty"`    // comment line above the field (may mention @tag: must be ignored)
	Prose   string    `json:"prose,omitempty"`  // text of the trailing comment before @tag
	HasCmt  bool      `json:"hascmt,omitempty"`
	Block   bool      `json:"block,omitempty"` // trailing comment is /* ... */
	AtTag   bool      `json:"attag,omitempty"` // trailing comment contains "@tag "
	Inject  []TagItem `json:"inject,omitempty"`
	InjTail string    `json:"injtail,omitempty"` // junk after the injected items
	Tight   bool      `json:"tight,omitempty"`   // line comment written without a blank after the slashes
}

// SrcDecl is a top-level declaration.
type SrcDecl struct {
	Kind   string     `json:"kind"` // struct | other
	Name   string     `json:"name,omitempty"`
	Doc    string     `json:"doc,omitempty"`
	Fields []SrcField `json:"fields,omitempty"`
	Text   string     `json:"text,omitempty"` // other: verbatim text
}

// SrcFile is a whole file.
type SrcFile struct {
	Name   string    `json:"name"`
	Header string    `json:"header"`
	Decls  []SrcDecl `json:"decls"`
	Ragged bool      `json:"ragged,omitempty"` // irregular whitespace instead of gofmt style
	CRLF   bool      `json:"crlf,omitempty"`
}

// Span is the byte span of one annotated field's tag literal in the rendered text.
type Span struct {
	Start, End int // [Start, End) including the back quotes
	Field      *SrcField
}

func renderTag(f *SrcField) string {
	var b strings.Builder
	b.WriteByte('`')
	for i, it := range f.Tag {
		if i < len(f.TagSep) {
			b.WriteString(f.TagSep[i])
		} else if i > 0 {
			b.WriteByte(' ')
		}
		b.WriteString(it.K + `:"` + it.V + `"`)
	}
	if len(f.TagSep) > len(f.Tag) {
		b.WriteString(f.TagSep[len(f.Tag)])
	}
	b.WriteByte('`')
	return b.String()
}

func renderItems(items []TagItem) string {
	var parts []string
	for _, it := range items {
		parts = append(parts, it.K+`:"`+it.V+`"`)
	}
	return strings.Join(parts, " ")
}

// Render produces the file text and the spans of the tag literals of annotated fields
// (fields that have a tag literal and a trailing comment with @tag).
func (s *SrcFile) Render() (string, []Span) {
	var b strings.Builder
	var spans []Span
	nl := "\n"
	if s.CRLF {
		nl = "\r\n"
	}
	b.WriteString(strings.ReplaceAll(s.Header, "\n", nl))
	for di := range s.Decls {
		d := &s.Decls[di]
		if d.Kind != "struct" {
			b.WriteString(strings.ReplaceAll(d.Text, "\n", nl) + nl)
			continue
		}
		if d.Doc != "" {
			b.WriteString("// " + d.Doc + nl)
		}
		if s.Ragged {
			b.WriteString("type   " + d.Name + "  struct{" + nl)
		} else {
			b.WriteString("type " + d.Name + " struct {" + nl)
		}
		for fi := range d.Fields {
			f := &d.Fields[fi]
			ind := "\t"
			if s.Ragged {
				ind = "  \t "
			}
			if f.Doc != "" {
				b.WriteString(ind + "// " + f.Doc + nl)
			}
			b.WriteString(ind)
			if f.Names != "" {
				b.WriteString(f.Names + " ")
				if s.Ragged {
					b.WriteString("  ")
				}
			}
			b.WriteString(strings.ReplaceAll(f.Type, "\n", nl))
			if f.HasTag {
				b.WriteString(" ")
				if s.Ragged {
					b.WriteString("\t ")
				}
				start := b.Len()
				b.WriteString(renderTag(f))
				if f.HasCmt && f.AtTag {
					spans = append(spans, Span{Start: start, End: b.Len(), Field: f})
				}
			}
			if f.HasCmt {
				cmt := f.Prose
				if f.AtTag {
					cmt += "@tag " + renderItems(f.Inject) + f.InjTail
				}
				if f.Block {
					b.WriteString(" /* " + cmt + " */")
				} else {
					if f.Tight {
						b.WriteString(" //" + cmt) // no blank after the slashes (with the right prose it reads like a tool directive)
					} else {
						b.WriteString(" // " + cmt)
					}
				}
			}
			b.WriteString(nl)
		}
		b.WriteString("}" + nl + nl)
	}
	return b.String(), spans
}

// Annotated counts fields with a tag literal and an @tag trailing comment.
func (s *SrcFile) Annotated() (n int, overriding bool, nonASCIIBefore bool) {
	txt, spans := s.Render()
	for _, sp := range spans {
		n++
		for _, in := range sp.Field.Inject {
			for _, old := range sp.Field.Tag {
				if in.K == old.K {
					overriding = true
				}
			}
		}
		for _, c := range txt[:sp.Start] {
			if c > 127 {
				nonASCIIBefore = true
				break
			}
		}
	}
	return
}

// mergeTags is the tag-merge model on ordered key lists: injected keys replace
// the value of an existing key in place, keys the comment does not mention keep
// value and position, new keys are appended in comment order.
func mergeTags(old, inj []TagItem) []TagItem {
	out := append([]TagItem{}, old...)
	for _, in := range inj {
		found := false
		for i := range out {
			if out[i].K == in.K {
				out[i].V = in.V
				found = true
				break
			}
		}
		if !found {
			out = append(out, in)
		}
	}
	return out
}

// scanTag is an order-preserving scanner of conventional tag text key:"value" ...
func scanTag(lit string) ([]TagItem, bool) {
	s := strings.TrimSpace(lit)
	var out []TagItem
	for s != "" {
		i := strings.Index(s, `:"`)
		if i <= 0 {
			return out, false
		}
		k := s[:i]
		if strings.ContainsAny(k, " \t\"") {
			return out, false
		}
		rest := s[i+2:]
		j := strings.Index(rest, `"`)
		if j < 0 {
			return out, false
		}
		out = append(out, TagItem{k, rest[:j]})
		s = strings.TrimLeft(rest[j+1:], " \t")
	}
	return out, true
}

// ---- generators ----

var tagKeys = []string{"json", "protobuf", "valid", "xml", "db", "form", "yaml", "bson", "v2", "my_tag", "alipay", "wechat",
	"x_json", "myvalid", "json2", "JSON", "a", "_"} // keys that end with / start with / differ only in case from other keys
var tagValRunes = []rune("abcxyzABC019 ,=|~$\\/-_.:;()[]{}<>#@!?*+'%测试验")

func genTagVal(t *rapid.T, label string) string {
	switch rapid.IntRange(0, 6).Draw(t, label+"Kind") {
	case 1:
		// a small pool of common values: different keys (and injected vs existing items) often carry the same value
		return rapid.SampledFrom([]string{"name", "required", "-", "a"}).Draw(t, label+"Common")
	case 0:
		return rapid.SampledFrom([]string{"name,omitempty", "bytes,1,opt,name=name,proto3", "required,to=1~3", "to=1~10|cost in $USD", "$1", "${x}", "$$", "re='\\d+'|必须为纯数字", "a\\b", "-", "50%", "100%s %d", "required|see @tag doc", "to=1~3|the @tag marker",
			"to=1~3|长度：1～3", "in=(a/b)|“a”或“b”", "required|邮箱＠公司", "required|姓名　必填", "eq=5|＂五＂"}).Draw(t, label+"Fixed") // (full-width and typographic characters are characters like any other)
	default:
		n := rapid.IntRange(1, 10).Draw(t, label+"Len")
		var b strings.Builder
		for i := 0; i < n; i++ {
			b.WriteRune(rapid.SampledFrom(tagValRunes).Draw(t, label))
		}
		return b.String()
	}
}

var fieldTypes = []string{"string", "int32", "int64", "bool", "[]string", "map[string]int32", "*Other", "[]*Other", "float64", "[]byte", "protoimpl.MessageState", "func(a string) error", "chan int", "interface{}", "struct{}"}
var prosePool = []string{"nolint:lll // ", "export E ", "go:generate stringer ", "line x.go:1 ", "todo:1 later ", "", "", "姓名 ", "name of the thing ", "年龄, 单位: 岁 ", "see `code` ", "a // b ", "é😀 ", "100% sure ", "valid:\"x\" is not injected here ", "＠tag valid:\"look-alike marker\" "}

func genSrcField(t *rapid.T, idx int, allowNoTagAnnotated bool) SrcField {
	f := SrcField{Names: fmt.Sprintf("F%d", idx), Type: rapid.SampledFrom(fieldTypes).Draw(t, "ftype")}
	switch rapid.IntRange(0, 11).Draw(t, "fieldShape") {
	case 0:
		f.Names = fmt.Sprintf("F%d, G%d", idx, idx)
	case 1:
		f.Names = ""
		f.Type = rapid.SampledFrom([]string{"Other", "*Other", "sync.Mutex"}).Draw(t, "embedded")
	case 2:
		f.Type = "struct {\n\t\tInner int32 `json:\"inner\"` // @tag valid:\"inner\"\n\t\tOther string\n\t}"
	case 4:
		f.Type = "struct{ B int `x:\"y\"`; C string `json:\"c\"` }" // one-line anonymous struct carrying its own tags
	case 3:
		f.Names = rapid.SampledFrom([]string{"state", "sizeCache", "unknownFields"}).Draw(t, "bookkeeping")
		f.Type = "protoimpl." + strings.Title(f.Names)
		return f
	}
	if rapid.IntRange(0, 5).Draw(t, "hasDoc") == 0 {
		f.Doc = rapid.SampledFrom([]string{"the field", "@tag valid:\"must-be-ignored\"", "字段说明 @tag json:\"x\""}).Draw(t, "doc")
	}
	f.HasTag = rapid.IntRange(0, 4).Draw(t, "hasTag") > 0
	if f.HasTag {
		n := rapid.IntRange(1, 4).Draw(t, "nTag")
		keys := rapid.Permutation(tagKeys).Draw(t, "tagKeys")[:n]
		for _, k := range keys {
			f.Tag = append(f.Tag, TagItem{k, genTagVal(t, "tv")})
		}
		f.TagSep = append(f.TagSep, rapid.SampledFrom([]string{"", "", " "}).Draw(t, "lead"))
		for i := 1; i < n; i++ {
			f.TagSep = append(f.TagSep, rapid.SampledFrom([]string{" ", " ", "  ", "\t", "   "}).Draw(t, "sep"))
		}
		f.TagSep = append(f.TagSep, rapid.SampledFrom([]string{"", "", " "}).Draw(t, "trail"))
	}
	if f.HasTag && strings.HasPrefix(f.Type, "struct") && rapid.Bool().Draw(t, "sameAsInner") {
		// the outer literal is byte-identical to a literal inside the field's own type
		if strings.Contains(f.Type, "`json:\"inner\"`") {
			f.Tag, f.TagSep = []TagItem{{"json", "inner"}}, []string{"", ""}
		} else {
			f.Tag, f.TagSep = []TagItem{{"x", "y"}}, []string{"", ""}
		}
	}
	if rapid.IntRange(0, 3).Draw(t, "hasCmt") > 0 {
		f.HasCmt = true
		f.Prose = rapid.SampledFrom(prosePool).Draw(t, "prose")
		f.Block = rapid.IntRange(0, 6).Draw(t, "block") == 0
		f.Tight = rapid.IntRange(0, 3).Draw(t, "tight") == 2
		if f.Block {
			f.Prose = strings.ReplaceAll(f.Prose, "//", "")
		}
		f.AtTag = rapid.IntRange(0, 4).Draw(t, "atTag") > 0 && (f.HasTag || allowNoTagAnnotated)
		if f.AtTag {
			n := rapid.IntRange(1, 3).Draw(t, "nInject")
			// override / add / both
			pool := append([]string{}, tagKeys...)
			var keys []string
			for i := 0; i < n; i++ {
				var k string
				if len(f.Tag) > 0 && rapid.Bool().Draw(t, "override") {
					k = f.Tag[rapid.IntRange(0, len(f.Tag)-1).Draw(t, "ovIdx")].K
				} else {
					k = rapid.SampledFrom(pool).Draw(t, "newKey")
				}
				dup := false
				for _, x := range keys {
					if x == k {
						dup = true
					}
				}
				if !dup {
					keys = append(keys, k)
					f.Inject = append(f.Inject, TagItem{k, genTagVal(t, "iv")})
				}
			}
			if rapid.IntRange(0, 59).Draw(t, "manyKeys") == 31 {
				// one comment with dozens of keys (beyond 64: whatever is tracked per injected item in a machine word overflows)
				have := map[string]bool{}
				for _, it := range f.Inject {
					have[it.K] = true
				}
				for i, total := 0, rapid.SampledFrom([]int{63, 64, 65, 70, 130}).Draw(t, "nManyKeys"); len(f.Inject) < total; i++ {
					k := fmt.Sprintf("k%d", i)
					if !have[k] {
						f.Inject = append(f.Inject, TagItem{k, rapid.SampledFrom([]string{"v", "x,omitempty", "required"}).Draw(t, "manyVal")})
					}
				}
			}
			if rapid.IntRange(0, 5).Draw(t, "mentionOnly") == 0 {
				f.Inject = nil // a comment that merely mentions @tag
				f.InjTail = rapid.SampledFrom([]string{"docs", "", "see above", "valid:\"\""}).Draw(t, "mention")
			} else {
				f.InjTail = rapid.SampledFrom([]string{"", "", " ", " trailing words"}).Draw(t, "tail")
			}
		}
		for _, it := range f.Inject {
			if strings.Contains(it.V, "*/") {
				f.Block = false // the value would end a block comment early
			}
		}
	} else if rapid.IntRange(0, 8).Draw(t, "plainMention") == 0 {
		f.HasCmt, f.Prose = true, "mentions @tag without a following blank"
		f.Prose = "mentions @tag"
	}
	return f
}

var otherDecls = []string{
	"type Other struct {\n\tX int32 `json:\"x\"`\n}",
	"type Kind int32",
	"type Handler func(ctx string) error",
	"const doc = `raw string with a back quote pair and @tag valid:\"nope\" inside`",
	"const (\n\tA = iota\n\tB\n)",
	"var table = map[string]string{\"@tag\": \"json:\\\"x\\\"\"}",
	"func helper() string {\n\t// @tag valid:\"not-a-field\"\n\ts := `x:\"y\"` // @tag valid:\"local\"\n\ttype local struct {\n\t\tA int `json:\"a\"` // @tag valid:\"local-type\"\n\t}\n\treturn s\n}",
	"// standalone comment mentioning @tag valid:\"free\"",
	"type Iface interface {\n\tDo() // @tag valid:\"method\"\n}",
	"type Alias = Other",
	"type Gen[T any] struct {\n\tV T `json:\"v\"`\n}",
	"func nanotime() int64 // implemented in assembly: a declaration without a body",
	"//go:linkname runtimeNano runtime.nanotime\nfunc runtimeNano() int64",
	"func (o *Other) String() string { return \"\" }",
	"func init() {}",
	"var _ = func() int {\n\treturn 0 // @tag valid:\"in a function literal\"\n}()",
	"type (\n\tPair struct {\n\t\tL int `json:\"l\"`\n\t}\n\tCount int\n)",
}

func genSrcFile(t *rapid.T, name string, minAnnotated int) *SrcFile {
	s := &SrcFile{Name: name, Ragged: rapid.IntRange(0, 3).Draw(t, "ragged") == 0, CRLF: rapid.IntRange(0, 9).Draw(t, "crlf") == 0}
	s.Header = rapid.SampledFrom([]string{
		"package pb\n\n",
		"// Code generated by protoc-gen-go. DO NOT EDIT.\n// 源文件: test.proto\n\npackage pb\n\nimport (\n\tprotoimpl \"google.golang.org/protobuf/runtime/protoimpl\"\n\t\"sync\"\n)\n\n",
		"/* 版权 © */\npackage pb // 包 @tag valid:\"pkg\"\n\nimport \"sync\"\n\n",
		"\ufeffpackage pb\n\n", // byte order mark (go/parser accepts it): every offset is shifted by 3 bytes
		"//go:build !ignore\n\n// Package pb 说明。\npackage pb\n\n",
		"package pb\n\nimport ()\n\nconst ()\n\nvar ()\n\ntype ()\n\n", // empty declaration groups (templates ranging over empty lists emit them)
		"package pb\n\nimport (\n)\n\nvar (\n\t// nothing yet\n)\n\n",
	}).Draw(t, "header")
	if rapid.IntRange(0, 39).Draw(t, "longLine") == 0 {
		// one very long line (beyond 64 KiB, the default buffer of line scanners) ahead of everything else
		s.Decls = append(s.Decls, SrcDecl{Kind: "other", Text: "const long = \"" + strings.Repeat("x", rapid.SampledFrom([]int{65530, 65536, 70000, 140000, 140000, 1100000}).Draw(t, "lineLen")) + "\" // @tag valid:\"not a field\""})
	}
	if rapid.IntRange(0, 399).Draw(t, "hugeFile") == 211 {
		// a file beyond 10 MiB (whatever is read with a fixed limit stops short of its end)
		s.Decls = append(s.Decls, SrcDecl{Kind: "other", Text: "const huge = \"" + strings.Repeat("y", 10500000) + "\""})
	}
	n := rapid.IntRange(1, 6).Draw(t, "nDecls")
	sn := 0
	for i := 0; i < n; i++ {
		if rapid.IntRange(0, 2).Draw(t, "declKind") == 0 {
			s.Decls = append(s.Decls, SrcDecl{Kind: "other", Text: rapid.SampledFrom(otherDecls).Draw(t, "other")})
			continue
		}
		sn++
		d := SrcDecl{Kind: "struct", Name: fmt.Sprintf("Msg%d", sn)}
		if rapid.IntRange(0, 15).Draw(t, "blankTypeName") == 8 {
			d.Name = "_" // a type nobody can refer to (go/parser keeps it out of the file scope): its fields are fields all the same
		}
		if rapid.IntRange(0, 3).Draw(t, "structDoc") == 0 {
			d.Doc = rapid.SampledFrom([]string{"Msg is a message", "消息体 @tag valid:\"doc\""}).Draw(t, "sdoc")
		}
		nf := rapid.IntRange(0, 6).Draw(t, "nFields")
		for j := 0; j < nf; j++ {
			d.Fields = append(d.Fields, genSrcField(t, j, false))
		}
		s.Decls = append(s.Decls, d)
	}
	// make sure the file has the requested number of annotated fields
	for tries := 0; tries < 20; tries++ {
		if c, _, _ := s.Annotated(); c >= minAnnotated {
			break
		}
		sn++
		d := SrcDecl{Kind: "struct", Name: fmt.Sprintf("Msg%d", sn)}
		for j := 0; j < 3; j++ {
			d.Fields = append(d.Fields, genSrcField(t, j, false))
		}
		s.Decls = append(s.Decls, d)
	}
	// repeated texts: the same @tag comment (and / or the same existing tag literal) on several
	// fields of one file, as generated code has them by the dozen
	var ann []*SrcField
	for di := range s.Decls {
		for fi := range s.Decls[di].Fields {
			f := &s.Decls[di].Fields[fi]
			if f.HasTag && f.HasCmt && f.AtTag && len(f.Inject) > 0 {
				ann = append(ann, f)
			}
		}
	}
	if len(ann) >= 2 && rapid.IntRange(0, 2).Draw(t, "repeatTexts") == 0 {
		donor := ann[rapid.IntRange(0, len(ann)-1).Draw(t, "donor")]
		if len(donor.Inject) < 2 {
			// a multi-key comment whose first key overrides an existing key of the donor
			donor.Inject = []TagItem{{donor.Tag[0].K, genTagVal(t, "riv")}, {rapid.SampledFrom(tagKeys).Draw(t, "rk"), genTagVal(t, "riv2")}}
			if donor.Inject[1].K == donor.Inject[0].K {
				donor.Inject = donor.Inject[:1]
			}
		}
		for _, f := range ann {
			if f == donor || rapid.Bool().Draw(t, "keepOwn") {
				continue
			}
			f.Inject = append([]TagItem(nil), donor.Inject...)
			f.InjTail = donor.InjTail
			if rapid.Bool().Draw(t, "sameLiteral") {
				f.Tag = append([]TagItem(nil), donor.Tag...)
				f.TagSep = append([]string(nil), donor.TagSep...)
			}
			for _, it := range f.Inject {
				if strings.Contains(it.V, "*/") {
					f.Block = false
				}
			}
		}
	}
	for _, f := range ann {
		for _, it := range f.Inject {
			if strings.Contains(it.V, "*/") {
				f.Block = false // the value would end a block comment early
			}
		}
	}
	// duplicate declarations of helper types would not matter to the injector (it only parses), keep them
	return s
}
