package harness

import (
	"fmt"
	"reflect"
	"sort"
	"strings"
	"sync"

	"gitee.com/xuesongtao/protoc-go-valid/valid"

	"verifharness/desc"
	"verifharness/ev"
	"verifharness/lib"
	"verifharness/model"
)

// StructCase is one call of the struct entry point, fully described by
// JSON-serialisable descriptors (this is what a replay file holds).
type StructCase struct {
	Root     desc.T                       `json:"root"`
	Val      desc.V                       `json:"val"`
	Tag      string                       `json:"tag,omitempty"`      // "" = default tag name
	Unscoped map[string]string            `json:"unscoped,omitempty"` // rule set given without a type
	PerType  map[string]map[string]string `json:"pertype,omitempty"`  // named library type -> rule set
	CallFns  []string                     `json:"callfns,omitempty"`  // rule names defined for this call
	RePats   map[string]string            `json:"repats,omitempty"`   // re rule item -> the generator's own pattern
	Entry    string                       `json:"entry,omitempty"`    // which exported entry point carries the call
	Hidden   *desc.V                      `json:"hidden,omitempty"`   // content for Tree.hidden (named roots only)
	// Twice (entry VStruct only): every rule set is registered twice for its target - first a
	// decoy set, then the real one, which replaces it (SetRule stores the set given last)
	Twice bool `json:"twice,omitempty"`
	// LateFill (entry VStruct only, not with Twice): every rule set is handed to SetRule as an empty rule map
	// (valid.NewRule()) and filled afterwards, before Valid - a rule map is a Go map, the validator sees it live
	LateFill bool `json:"latefill,omitempty"`
	// fm: the function table a prepared history call hands to StructForFns (calls_test.go)
	fm valid.Name2FnMap
	// NoModel: the source is something the entry point turns down (a typed nil pointer): only the
	// metamorphic oracles apply
	NoModel bool `json:"nomodel,omitempty"`
	// RMSlot: the unscoped rule set is handed over in a rule-map OBJECT that is kept between the
	// calls of one history and refilled in place (callers reuse one valid.RM and edit it between calls)
	RMSlot string `json:"rmslot,omitempty"`
	// LateReg: a global function of this name is registered (SetCustomerValidFn) during the
	// call set-up - for the builder entry (VStruct) AFTER the validator object was created
	// and configured, right before Valid.  The name is a placeholder (LATE1) that every
	// execution replaces by a fresh one (registrations cannot be undone).
	LateReg string `json:"latereg,omitempty"`
	// Token: how the struct type of a per-type rule set is named in SetRule / NestedStructForRule:
	// "" = &T{}, "nilptr" = (*T)(nil), "ptrptr" = a **T whose inner pointer is nil, "value" = T{} (SetRule only)
	Token string `json:"token,omitempty"`
	// Cache: capacity of the struct-type cache during this call (0 = as the process has it): a
	// fresh LRU of that capacity, so that a nested value holds more struct types than fit and the
	// type of an object still being walked is evicted in mid-call
	Cache int `json:"cache,omitempty"`
	// Warm: the type of the source is validated once (result ignored) before anything else of the
	// call happens - in particular before the late registration
	Warm bool `json:"warm,omitempty"`
	// ReReg (with LateReg and Warm): the late name is registered ONCE BEFORE the warm-up validation (function
	// "global") and AGAIN, with another function ("global2"), where the late registration happens: the name
	// resolves to the function registered last
	ReReg bool `json:"rereg,omitempty"`
	// Many: type and value are those of a many-types case (see ManySpec); Root and Val are empty then
	Many *ManySpec `json:"many,omitempty"`
}

// typeToken builds the value that names struct type ty in a registration.
func (c *StructCase) typeToken(ty reflect.Type, mapKey bool) interface{} {
	switch c.Token {
	case "nilptr":
		return reflect.Zero(reflect.PtrTo(ty)).Interface()
	case "ptrptr":
		return reflect.New(reflect.PtrTo(ty)).Interface()
	case "value":
		if !mapKey { // (a struct value with slice fields cannot be a map key)
			return reflect.New(ty).Elem().Interface()
		}
	}
	return reflect.New(ty).Interface()
}

// freshLate returns a copy of the case with the LATE placeholders replaced by unused names.
func (c *StructCase) freshLate() *StructCase {
	if c.LateReg == "" {
		return c
	}
	b, _ := jsonMarshal(c)
	lateCounter++
	txt := strings.ReplaceAll(string(b), "LATE1", fmt.Sprintf("late%dz", lateCounter))
	var out StructCase
	if err := jsonUnmarshal([]byte(txt), &out); err != nil {
		panic(err)
	}
	return &out
}

// decoyOf is the rule set registered first when Twice is set.
func decoyOf(rm map[string]string) valid.RM {
	d := valid.NewRule()
	for k := range rm {
		d[k] = "required|decoy " + k
	}
	d["Name"] = "phone|decoy"
	d["Zz"] = "to=1~2"
	return d
}

// multiTokenDecoy hands a decoy rule set over with TWO type tokens.  SetRule takes one ("obj 只支持一个参数,
// 多个无效": several are invalid), so this registers nothing - for no type and not as the unscoped set.
func multiTokenDecoy(vs *valid.VStruct, like map[string]string) {
	d := decoyOf(like)
	for _, k := range []string{"A", "B", "N", "S", "L", "M", "Val", "Left"} {
		d[k] = "required|multi-token decoy " + k + ",to=1~1|multi-token decoy"
	}
	vs.SetRule(d, &lib.Leaf{}, &lib.Stamp{})
}

// globalFnNames are registered once per process in registerGlobals.
var globalFnNames = map[string]bool{}

func customFn(level, name string) valid.CommonValidFn {
	return func(errBuf *strings.Builder, validName, objName, fieldName string, tv reflect.Value) {
		// the function keeps its message words in a slice of its own and spreads it into the helper,
		// call after call (the helper must leave the caller's slice alone)
		errBuf.WriteString(valid.GetJoinValidErrStr(objName, fieldName, valid.ToStr(tv.Interface()), customWords(level, name)...))
	}
}

var customWordsState struct {
	sync.Mutex
	m map[string][]string
}

// customWords returns the message words of a custom function: one slice per function, created on
// first use after freshState and then reused.
func customWords(level, name string) []string {
	customWordsState.Lock()
	defer customWordsState.Unlock()
	if customWordsState.m == nil {
		customWordsState.m = map[string][]string{}
	}
	w := customWordsState.m[level+"/"+name]
	if w == nil {
		w = []string{valid.ExplainEn, "custom", level, name}
		customWordsState.m[level+"/"+name] = w
	}
	return w
}

func resetCustomWords() {
	customWordsState.Lock()
	customWordsState.m = nil
	customWordsState.Unlock()
}

func toRM(m map[string]string) valid.RM {
	if m == nil {
		return nil
	}
	rm := valid.NewRule()
	for k, v := range m {
		rm[k] = v
	}
	return rm
}

// emptyTag is the descriptor's spelling of an explicitly empty tag name (""
// itself means "not given", i.e. the default tag): no tag rules apply then,
// only rule sets given in the call.
const emptyTag = "<empty>"

func (c *StructCase) tagName() string {
	if c.Tag == "" {
		return "valid"
	}
	return c.tagArg()
}

// tagArg is the tag name argument as handed to the library.
func (c *StructCase) tagArg() string {
	if c.Tag == emptyTag {
		return ""
	}
	return c.Tag
}

// build materialises the argument of the call.
func (c *StructCase) build() reflect.Value {
	c = c.expanded()
	return desc.Build(desc.Type(c.Root), c.Val)
}

func (c *StructCase) walkCfg() model.WalkCfg {
	cfg := model.WalkCfg{Tag: c.tagName(), Unscoped: c.Unscoped, PerType: map[reflect.Type]map[string]string{},
		CallFns: map[string]bool{}, GlobalFns: globalFnNames, RePats: c.RePats, Env: fsEnv}
	if c.ReReg {
		cfg.GlobalLevel = map[string]string{c.LateReg: "global2"}
	}
	for name, rm := range c.PerType {
		cfg.PerType[lib.Types[name]] = rm
	}
	for _, n := range c.CallFns {
		cfg.CallFns[n] = true
	}
	return cfg
}

// call performs the validation through the exported API.
func (c *StructCase) call(src interface{}) error {
	var lateFills []func()
	perType := func(vs *valid.VStruct) {
		names := make([]string, 0, len(c.PerType))
		for n := range c.PerType {
			names = append(names, n)
		}
		sort.Strings(names)
		for _, n := range names {
			if c.LateFill && !c.Twice {
				rm, src := valid.NewRule(), c.PerType[n]
				vs.SetRule(rm, c.typeToken(lib.Types[n], false))
				lateFills = append(lateFills, func() {
					for k, v := range src {
						rm[k] = v
					}
				})
				continue
			}
			vs.SetRule(toRM(c.PerType[n]), c.typeToken(lib.Types[n], false))
		}
	}
	late := func() {
		if c.ReReg {
			valid.SetCustomerValidFn(c.LateReg, customFn("global2", c.LateReg))
			return
		}
		register(c.LateReg)
	}
	if c.ReReg {
		register(c.LateReg)
	}
	if c.Warm {
		_ = valid.ValidateStruct(src, c.tagName())
	}
	if c.LateReg != "" && c.Entry != "VStruct" && c.Entry != "" {
		late()
	}
	switch c.Entry {
	case "Struct":
		if c.Unscoped != nil {
			return valid.Struct(src, toRM(c.Unscoped))
		}
		return valid.Struct(src)
	case "ValidateStruct":
		if c.Tag != "" {
			return valid.ValidateStruct(src, c.tagArg())
		}
		return valid.ValidateStruct(src)
	case "StructForFn":
		if c.Tag != "" {
			return valid.StructForFn(src, toRM(c.Unscoped), c.tagArg())
		}
		return valid.StructForFn(src, toRM(c.Unscoped))
	case "ValidStructForRule": // deprecated alias of StructForFn
		if c.Tag != "" {
			return valid.ValidStructForRule(toRM(c.Unscoped), src, c.tagArg())
		}
		return valid.ValidStructForRule(toRM(c.Unscoped), src)
	case "ValidStructForMyValidFn": // deprecated: exactly one per-call function, no rule set
		if c.Tag != "" {
			return valid.ValidStructForMyValidFn(src, c.CallFns[0], customFn("call", c.CallFns[0]), c.tagArg())
		}
		return valid.ValidStructForMyValidFn(src, c.CallFns[0], customFn("call", c.CallFns[0]))
	case "StructForFns":
		fm := valid.Name2FnMap{}
		for _, n := range c.CallFns {
			fm[n] = customFn("call", n)
		}
		if c.Tag != "" {
			return valid.StructForFns(src, toRM(c.Unscoped), fm, c.tagArg())
		}
		return valid.StructForFns(src, toRM(c.Unscoped), fm)
	case "Nested":
		m := map[interface{}]valid.RM{}
		for n, rm := range c.PerType {
			m[c.typeToken(lib.Types[n], true)] = toRM(rm)
		}
		return valid.NestedStructForRule(src, m)
	}
	var vs *valid.VStruct
	if c.Tag != "" {
		vs = valid.NewVStruct(c.tagArg())
	} else {
		vs = valid.NewVStruct()
	}
	var fillLater []func()
	if c.Unscoped != nil {
		if c.Twice {
			vs.SetRule(decoyOf(c.Unscoped))
		}
		if c.LateFill && !c.Twice {
			rm, src := valid.NewRule(), c.Unscoped
			vs.SetRule(rm)
			fillLater = append(fillLater, func() {
				for k, v := range src {
					rm[k] = v
				}
			})
		} else {
			vs.SetRule(toRM(c.Unscoped))
		}
	}
	if c.Twice {
		for n, rm := range c.PerType {
			vs.SetRule(decoyOf(rm), c.typeToken(lib.Types[n], false))
		}
	}
	perType(vs)
	if c.Twice {
		multiTokenDecoy(vs, c.Unscoped)
	}
	for _, n := range c.CallFns {
		vs.SetValidFn(n, customFn("call", n))
	}
	if c.LateReg != "" {
		late()
	}
	for _, f := range append(fillLater, lateFills...) {
		f()
	}
	return vs.Valid(src)
}

// pickEntry chooses the most specific exported entry point able to carry the call.
func (c *StructCase) pickEntry(choice int) {
	var ok []string
	ok = append(ok, "VStruct")
	if len(c.PerType) == 0 && len(c.CallFns) == 1 && c.Unscoped == nil {
		ok = append(ok, "ValidStructForMyValidFn")
	}
	if len(c.PerType) == 0 && len(c.CallFns) == 0 {
		if c.Unscoped != nil {
			ok = append(ok, "StructForFn", "ValidStructForRule")
			if c.Tag == "" {
				ok = append(ok, "Struct")
			}
		} else {
			ok = append(ok, "ValidateStruct")
			if c.Tag == "" {
				ok = append(ok, "Struct")
			}
		}
	}
	if len(c.PerType) == 0 && c.Unscoped != nil {
		ok = append(ok, "StructForFns")
	}
	if len(c.PerType) > 0 && c.Unscoped == nil && len(c.CallFns) == 0 && c.Tag == "" {
		ok = append(ok, "Nested")
	}
	c.Entry = ok[choice%len(ok)]
}

// source materialises the argument of the call (incl. the unexported Tree field).
func (c *StructCase) source() interface{} {
	rv := c.build()
	if c.Hidden != nil {
		sv := rv
		for sv.Kind() == reflect.Ptr && !sv.IsNil() {
			sv = sv.Elem()
		}
		if sv.Type() == lib.Types["Tree"] && sv.CanAddr() {
			h := desc.Build(lib.Types["Leaf"], *c.Hidden).Interface().(lib.Leaf)
			sv.Addr().Interface().(*lib.Tree).SetHidden(h)
		}
	}
	return rv.Interface()
}

// runStructCase executes the call and the reference walk.
func runStructCase(c *StructCase) (res *model.Result, errText string, isNil bool, panicked interface{}) {
	c = c.freshLate().expanded()
	src := c.source()
	var err error
	if c.Cache > 0 && proxyInstalled {
		proxy.set(valid.NewLRU(c.Cache))
		ev.Class("struct-type cache smaller than the number of types of the value is possible (capacity 1-3)")
	}
	panicked = ev.Guard(func() { err = c.call(src) })
	if c.Cache > 0 && proxyInstalled {
		proxy.set(valid.NewLRU(512))
	}
	res = model.Walk(c.walkCfg(), reflect.ValueOf(src)) // (after the call: a late registration is part of the call)
	if err == nil {
		return res, "", true, panicked
	}
	return res, err.Error(), false, panicked
}

func (c *StructCase) String() string {
	return fmt.Sprintf("%+v", *c)
}

var fsEnv *model.Env
