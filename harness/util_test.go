package harness

import (
	"encoding/json"
	"sort"
)

func jsonMarshal(v interface{}) ([]byte, error)   { return json.Marshal(v) }
func jsonUnmarshal(b []byte, v interface{}) error { return json.Unmarshal(b, v) }

func sortStrings(a []string) { sort.Strings(a) }
