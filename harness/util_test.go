package harness

import (
	"encoding/json"
	"runtime"
	"sort"
)

func jsonMarshal(v interface{}) ([]byte, error)   { return json.Marshal(v) }
func jsonUnmarshal(b []byte, v interface{}) error { return json.Unmarshal(b, v) }

func sortStrings(a []string) { sort.Strings(a) }

// setProcs sets GOMAXPROCS for the case at hand and leaves it there (the next case sets its own): every change
// makes the run-time create or destroy its per-processor state, and under the race detector that path has crashed
// (SIGSEGV in __tsan::ThreadContext::OnFinished, seen once in a soak run), so it is taken no more often than needed.
func setProcs(n int) {
	if n > 0 && runtime.GOMAXPROCS(0) != n {
		runtime.GOMAXPROCS(n)
	}
}
