#!/bin/bash
# usage: tools/at-commit.sh <commit> <prop>...   -- runs quick checks against a scratch worktree of /repo at <commit>
export GOFLAGS=-mod=mod GOPROXY=off GOSUMDB=off GOTOOLCHAIN=local
C=$1; shift
D=$(mktemp -d /tmp/at.XXXXXX)
git -C /repo worktree add --detach -q "$D/r" "$C" || exit 2
trap 'git -C /repo worktree remove --force "$D/r" 2>/dev/null; rm -rf "$D"' EXIT
for P in "$@"; do
  out=$(cd /verif && VERIF_REPO="$D/r" VERIF_NO_EVIDENCE=1 VERIF_FINDINGS_DIR="${VERIF_FINDINGS_DIR:-/tmp/at-findings}" ./check "$P" --tier "${TIER:-quick}" 2>&1); rc=$?
  echo "== $P rc=$rc: $(echo "$out" | grep -E 'VIOLATION|^OK|INCONCLUSIVE' | head -2)"
  if [ "${VERBOSE:-0}" = 1 ]; then echo "$out" | tail -12 | cut -c1-700; fi
done
