#!/usr/bin/env python3
"""Regenerates /verif/MANIFEST.json from tools/claims.json (one entry per claimed property)."""
import json, os
V = os.path.dirname(os.path.dirname(os.path.abspath(__file__)))
props = [json.loads(l) for l in open(os.path.join(V, "properties.jsonl"), encoding="utf-8")]
claims = json.load(open(os.path.join(V, "tools", "claims.json"), encoding="utf-8"))
checks, na = [], []
for p in props:
    pid = p["id"]
    c = claims.get(pid)
    if not c or c.get("not_applicable"):
        na.append({"property_id": pid, "reason": (c or {}).get("not_applicable", "check not built yet (work in progress; see DESIGN.md §11 build order)")})
        continue
    checks.append({
        "property_id": pid,
        "quick_cmd": "./check %s --tier quick" % pid,
        "thorough_cmd": "./check %s --tier thorough" % pid,
        "evidence_file": "evidence/%s.json" % pid,
        "replay_cmd_template": "./check %s --replay {path}" % pid,
        "engine": c.get("engine", "rapid"),
        "level_claimed": {"category": "exploration", "text": c["text"], "design_ref": "DESIGN.md §5 " + pid},
        "level_note": c["note"],
        "technique": c["technique"],
    })
man = {
    "version": 1,
    "setup_cmd": "./check --setup",
    "hooks": {
        "guard": "verif",
        "enable": "none needed: every check uses only the exported API of /repo and the CLI built from it; there are no source hooks",
        "baseline_off_cmd": "cd /repo && go test -vet=off -count=1 -timeout 25m ./...",
        "source_commits": [],
        "add_only": True,
    },
    "engines": [{
        "name": "rapid", "path": "harness/", "serves_properties": [c["property_id"] for c in checks],
        "kind_free_text": "pgregory.net/rapid v1.3.0 property-based tests (generators, state machines, shrinking) and bounded-exhaustive enumerators driving the same oracle functions; Go native fuzzing in the thorough tier; porcupine as history-checking oracle for C10; driver ./check (python3)",
    }],
    "checks": checks,
    "notes": "Design and per-property oracles: DESIGN.md. Defects found and repaired/recorded: KNOWN_FINDINGS.txt. Seeded breaking changes and which check catches them: seeded/ and DESIGN.md.",
    "not_applicable": na,
}
json.dump(man, open(os.path.join(V, "MANIFEST.json"), "w", encoding="utf-8"), indent=1, ensure_ascii=False)
print("claimed", len(checks), "not_applicable", len(na))
