#!/bin/bash
# usage: tools/mutant.sh <patch.diff> <prop> [<prop>...]
# Applies the patch to a scratch worktree of /repo (outside /repo and /verif), checks that it
# builds and passes the pinned suite, runs the given checks (quick tier) against it, removes it.
set -u
export GOFLAGS=-mod=mod GOPROXY=off GOSUMDB=off GOTOOLCHAIN=local
PATCH=$(realpath "$1"); shift
D=$(mktemp -d /tmp/mut.XXXXXX)
git -C /repo worktree add --detach -q "$D/r" HEAD || exit 2
cleanup() { git -C /repo worktree remove --force "$D/r" 2>/dev/null; rm -rf "$D"; }
trap cleanup EXIT
if ! git -C "$D/r" apply "$PATCH"; then echo "PATCH DOES NOT APPLY"; exit 2; fi
if ! (cd "$D/r" && go build ./... ); then echo "MUTANT DOES NOT BUILD"; exit 2; fi
if (cd "$D/r" && go test -vet=off -count=1 ./... >"$D/suite.log" 2>&1); then echo "suite: PASS (mutant survives the pinned tests)"; else echo "suite: FAIL (mutant is killed by the pinned tests)"; tail -5 "$D/suite.log"; fi
for P in "$@"; do
  out=$(cd /verif && VERIF_REPO="$D/r" VERIF_NO_EVIDENCE=1 VERIF_FINDINGS_DIR="$D/findings" ./check "$P" --tier "${TIER:-quick}" 2>&1); rc=$?
  echo "== $P rc=$rc: $(echo "$out" | grep -E 'VIOLATION|^OK|INCONCLUSIVE' | head -2)"
  if [ "${VERBOSE:-0}" = 1 ]; then echo "$out" | tail -15 | cut -c1-600; fi
done
