#!/usr/bin/env python3
"""Intake of one independently written breaking change.

  tools/seeded-intake.py <src dir> <id> <property> "<what it needs to manifest>" [<other props to run>...]

Confirms the change (tools/seeded.py confirm), runs the property's check (+ others) against it, and - only if
confirmed - stores it as /verif/seeded/<id>/ {patch.diff, demo files, README.txt (author's notes), meta.json}.
"""
import json, os, shutil, subprocess, sys

V = os.path.dirname(os.path.dirname(os.path.abspath(__file__)))
src, sid, prop, needs = sys.argv[1:5]
others = sys.argv[5:]


def last_json(cmd):
    p = subprocess.run(cmd, stdout=subprocess.PIPE, stderr=subprocess.STDOUT, text=True, cwd=V)
    return json.loads(p.stdout.strip().splitlines()[-1])


conf = last_json([os.path.join(V, "tools/seeded.py"), "confirm", src])
print("confirm:", {k: v for k, v in conf.items() if "tail" not in k and k != "dir"})
if not conf.get("confirmed"):
    print("NOT CONFIRMED - not stored")
    print(json.dumps(conf, indent=1, ensure_ascii=False)[:3000])
    sys.exit(1)
res = last_json([os.path.join(V, "tools/seeded.py"), "run", src, prop] + others)
dst = os.path.join(V, "seeded", sid)
os.makedirs(dst, exist_ok=True)
for f in os.listdir(src):
    if f == "patch.diff" or f.endswith("_test.go") or f == "README.txt" or f.endswith(".go"):
        shutil.copy(os.path.join(src, f), os.path.join(dst, f if not f.endswith("_test.go") else f + ".txt"))
meta = dict(
    id=sid, property=prop, needs_to_manifest=needs, files_touched=conf["files"],
    confirmed=dict(builds=conf["builds"], pinned_suite_passes_with_change=conf["suite_passes_with_change"],
                   demo_fails_with_change=conf["demo_fails_with_change"], demo_passes_without_change=conf["demo_passes_without_change"]),
    what_was_run=["tools/seeded.py confirm <dir>  (scratch worktree of /repo HEAD: git apply patch.diff; go build ./...; go test -vet=off -count=1 ./...; demo with and without the change)",
                  "tools/seeded.py run <dir> %s  (./check <prop> --tier %s with VERIF_REPO=<patched worktree>)" % (" ".join([prop] + others), os.environ.get("TIER", "quick"))],
    checks={p: dict(caught=(c["rc"] == 1), rc=c["rc"], verdict=c["verdict"], how=c["note"]) for p, c in res["checks"].items()},
    demo_files=[f + ".txt" for f in os.listdir(src) if f.endswith("_test.go")],
    note="demo files are stored with a .txt suffix so that no Go tool picks them up inside /verif; drop the suffix and copy them next to the package they name",
)
json.dump(meta, open(os.path.join(dst, "meta.json"), "w"), indent=1, ensure_ascii=False)
for p, c in meta["checks"].items():
    print("  %s: %s  %s" % (p, "CAUGHT" if c["caught"] else "missed (rc=%d)" % c["rc"], c["how"][:160]))
