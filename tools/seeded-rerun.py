#!/usr/bin/env python3
"""Re-runs every stored seeded change against the check of the property it targets (and any other check
named in its meta.json), updates seeded/<id>/meta.json and prints the table used in DESIGN.md §12.6.

  tools/seeded-rerun.py [--only-target] [id ...]
"""
import json, os, subprocess, sys

V = os.path.dirname(os.path.dirname(os.path.abspath(__file__)))
args = [a for a in sys.argv[1:] if not a.startswith("--")]
only_target = "--only-target" in sys.argv
ids = args or sorted(os.listdir(os.path.join(V, "seeded")))
rows = []
for sid in ids:
    d = os.path.join(V, "seeded", sid)
    mp = os.path.join(d, "meta.json")
    if not os.path.exists(mp):
        continue
    meta = json.load(open(mp, encoding="utf-8"))
    props = [meta["property"]] + ([] if only_target else [p for p in meta.get("checks", {}) if p != meta["property"]])
    p = subprocess.run([os.path.join(V, "tools/seeded.py"), "run", d] + props, stdout=subprocess.PIPE, stderr=subprocess.STDOUT, text=True, cwd=V)
    try:
        res = json.loads(p.stdout.strip().splitlines()[-1])
    except Exception:
        print("| %s | %s | (the run did not finish: %s) | ERROR | |" % (sid, meta["property"], p.stdout.strip()[-200:].replace("\n", " ")), flush=True)
        continue
    if res.get("error"):
        print("| %s | %s | (%s) | ERROR | |" % (sid, meta["property"], res["error"]), flush=True)
        continue
    for prop, c in res.get("checks", {}).items():
        meta.setdefault("checks", {})[prop] = dict(caught=(c["rc"] == 1), rc=c["rc"], verdict=c["verdict"], how=c["note"])
    json.dump(meta, open(mp, "w", encoding="utf-8"), indent=1, ensure_ascii=False)
    t = meta["checks"][meta["property"]]
    others = [p for p, c in meta["checks"].items() if p != meta["property"] and c["caught"]]
    print("| %s | %s | %s | %s | %s |" % (sid, meta["property"], meta["needs_to_manifest"].replace("|", "\\|")[:220],
                                         "caught" if t["caught"] else "MISSED (rc=%d)" % t["rc"], ", ".join(others)), flush=True)
