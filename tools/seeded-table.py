#!/usr/bin/env python3
"""Writes seeded/README.md from seeded/<id>/meta.json and seeded/notes.json (why a change was missed at first / what was added)."""
import json, glob, os
V = os.path.dirname(os.path.dirname(os.path.abspath(__file__)))
notes = json.load(open(os.path.join(V, "seeded", "notes.json"), encoding="utf-8"))
rows = []
for mp in sorted(glob.glob(os.path.join(V, "seeded", "*", "meta.json"))):
    m = json.load(open(mp, encoding="utf-8"))
    t = m["checks"][m["property"]]
    others = sorted(p for p, c in m["checks"].items() if p != m["property"] and c["caught"])
    rows.append((m["id"], m["property"], m["needs_to_manifest"], t["caught"], others, notes.get(m["id"], "")))
out = ["| id | property | what the change needs in order to manifest | target check (quick tier) | also caught by | first missed because / what was added |", "|---|---|---|---|---|---|"]
for r in rows:
    out.append("| %s | %s | %s | %s | %s | %s |" % (r[0], r[1], r[2].replace("|", "\\|"), "caught" if r[3] else "not caught", ", ".join(r[4]), r[5].replace("|", "\\|")))
head = """# Seeded changes

%d changes to xuesongtao/protoc-go-valid written by independent sub-agents (thirteen rounds, two per property and round up to round 9 and in round 11, one in rounds 10, 12 and 13 - round 13 for ten properties only; each agent saw
only the text of one property - from round 2 on also one-line descriptions of the earlier changes for that property, so as to
look elsewhere - and its own scratch worktree of /repo, nothing from /verif).  Every change compiles, passes the pinned suite and
comes with a demonstration that fails with the change and passes without it; all of that was re-confirmed in a scratch worktree
(`tools/seeded.py confirm`).  `<id>/patch.diff` is the change (rebased where a later `fix:` commit in /repo touched the same
lines; the original is then kept as `patch.orig.diff`), `<id>/*_test.go.txt` the demonstration, `<id>/README.txt` the author's
notes, `<id>/meta.json` what was run and which checks catch it (`tools/seeded-rerun.py` refreshes it, `tools/seeded-table.py`
this file).  None of these changes is ever applied to /repo itself.

Rounds: a/b = 1, c/d = 2, e/f = 3, g/h = 4, i/j = 5, k/l = 6, m/n = 7, o/p = 8, q/r = 9, s = 10, t/u = 11 (authors saw the property and their worktree only), v = 12, w = 13.  %d of %d are caught by the check of the property they were written for.

""" % (len(rows), sum(1 for r in rows if r[3]), len(rows))
open(os.path.join(V, "seeded", "README.md"), "w", encoding="utf-8").write(head + "\n".join(out) + "\n")
print(len(rows), "rows;", sum(1 for r in rows if r[3]), "caught by target")
