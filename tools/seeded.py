#!/usr/bin/env python3
"""Confirms and evaluates an independently written breaking change ("seeded change").

  tools/seeded.py confirm <dir>            dir holds patch.diff + demo *_test.go (+ README.txt)
      -> applies the patch to a scratch worktree of /repo HEAD (outside /repo and /verif), checks that it
         builds, that the pinned suite passes, that the demo fails with the patch and passes without it
  tools/seeded.py run <dir> <prop>...      runs the given checks (quick tier unless TIER=thorough) against the patched
                                           worktree and prints one line per check
Both remove the worktree afterwards.  Results are printed as JSON on the last line.
"""
import json, os, re, shutil, subprocess, sys, tempfile

V = os.path.dirname(os.path.dirname(os.path.abspath(__file__)))
ENV = dict(os.environ, GOFLAGS="-mod=mod", GOPROXY="off", GOSUMDB="off", GOTOOLCHAIN="local")


def sh(cmd, cwd=None, env=None, timeout=3600):
    p = subprocess.run(cmd, cwd=cwd, env=env or ENV, stdout=subprocess.PIPE, stderr=subprocess.STDOUT, text=True, errors="replace", timeout=timeout)
    return p.returncode, p.stdout


def worktree():
    d = tempfile.mkdtemp(prefix="seeded.", dir="/tmp")
    rc, out = sh(["git", "-C", "/repo", "worktree", "add", "--detach", "-q", d + "/r", "HEAD"])
    if rc != 0:
        raise SystemExit("cannot create worktree: " + out)
    return d, d + "/r"


def cleanup(d):
    sh(["git", "-C", "/repo", "worktree", "remove", "--force", d + "/r"])
    shutil.rmtree(d, ignore_errors=True)


def demos(src):
    out = []
    for f in sorted(os.listdir(src)):
        if f.endswith("_test.go") or f.endswith("_test.go.txt"):  # (stored demos carry a .txt suffix)
            text = open(os.path.join(src, f), encoding="utf-8").read()
            m = re.search(r"^package\s+(\w+)", text, re.M)
            pkg = m.group(1) if m else "valid"
            sub = {"valid": "valid", "valid_test": "valid", "file": "file", "file_test": "file", "main": ".", "main_test": ".",
                   "internal": "valid/internal", "log": "log"}.get(pkg, "valid")
            names = re.findall(r"^func (Test\w+|Example\w*)\(", text, re.M)
            out.append((f, sub, names, "-race" in text or "race detector" in text.lower()))
    return out


def run_demo(wt, src, race_hint):
    """copies the demo files in, runs them, removes them; returns (passed, output tail)"""
    ok = True
    tail = ""
    placed = []
    for f, sub, names, race in demos(src):
        dst = os.path.join(wt, sub, f[:-4] if f.endswith(".txt") else f)
        shutil.copy(os.path.join(src, f), dst)
        placed.append((dst, sub, names, race))
    for dst, sub, names, race in placed:
        cmd = ["go", "test", "-vet=off", "-count=1", "-timeout", "600s"]
        if race or race_hint:
            cmd.append("-race")
        if names:
            cmd += ["-run", "^(" + "|".join(names) + ")$"]
        cmd.append("./" + sub if sub != "." else ".")
        rc, out = sh(cmd, cwd=wt)
        ok = ok and rc == 0
        tail += out[-1500:]
    for dst, *_ in placed:
        os.remove(dst)
    return ok, tail


def confirm(src):
    patch = os.path.join(src, "patch.diff")
    readme = ""
    if os.path.exists(os.path.join(src, "README.txt")):
        readme = open(os.path.join(src, "README.txt"), encoding="utf-8", errors="replace").read()
    race_hint = "-race" in readme
    res = dict(dir=src)
    d, wt = worktree()
    try:
        touched = re.findall(r"^\+\+\+ b/(\S+)", open(patch).read(), re.M)
        res["files"] = touched
        res["touches_tests"] = any(t.endswith("_test.go") for t in touched)
        rc, out = sh(["git", "-C", wt, "apply", patch])
        res["applies"] = rc == 0
        if rc != 0:
            res["error"] = out[-500:]
            return res
        rc, out = sh(["go", "build", "./..."], cwd=wt)
        res["builds"] = rc == 0
        rc, out = sh(["go", "test", "-vet=off", "-count=1", "-timeout", "25m", "./..."], cwd=wt)
        res["suite_passes_with_change"] = rc == 0
        if rc != 0:
            res["suite_tail"] = out[-800:]
        ok, tail = run_demo(wt, src, race_hint)
        res["demo_fails_with_change"] = not ok
        res["demo_tail_with_change"] = tail[-600:]
        sh(["git", "-C", wt, "checkout", "--", "."])
        ok, tail = run_demo(wt, src, race_hint)
        res["demo_passes_without_change"] = ok
        if not ok:
            res["demo_tail_without_change"] = tail[-600:]
        res["confirmed"] = bool(res["builds"] and res["suite_passes_with_change"] and res["demo_fails_with_change"]
                                and res["demo_passes_without_change"] and not res["touches_tests"])
    finally:
        cleanup(d)
    return res


def run(src, props):
    res = dict(dir=src, checks={})
    d, wt = worktree()
    try:
        rc, out = sh(["git", "-C", wt, "apply", os.path.join(src, "patch.diff")])
        if rc != 0:
            res["error"] = "patch does not apply"
            return res
        tier = os.environ.get("TIER", "quick")
        for p in props:
            env = dict(os.environ, VERIF_REPO=wt, VERIF_NO_EVIDENCE="1", VERIF_FINDINGS_DIR=d + "/findings")
            rc, out = sh(["./check", p, "--tier", tier], cwd=V, env=env, timeout=7200)
            line = [l for l in out.splitlines() if l.startswith(("VIOLATION", "OK ", "INCONCLUSIVE"))]
            note = ""
            m = re.search(r"\[C\d+/[^\]]+\] (.*)", out)
            if m:
                note = m.group(1)[:400]
            elif "DATA RACE" in out:
                note = "DATA RACE reported by the race detector"
            res["checks"][p] = dict(rc=rc, verdict=(line[-1] if line else "")[:200].replace(d, "<scratch>"), note=note)
            print("== %s rc=%d %s | %s" % (p, rc, res["checks"][p]["verdict"], note[:200]), flush=True)
    finally:
        cleanup(d)
    return res


if __name__ == "__main__":
    if len(sys.argv) < 3:
        raise SystemExit(__doc__)
    if sys.argv[1] == "confirm":
        print(json.dumps(confirm(os.path.abspath(sys.argv[2]))))
    elif sys.argv[1] == "run":
        print(json.dumps(run(os.path.abspath(sys.argv[2]), sys.argv[3:])))
