#!/bin/bash
# usage: tools/soak.sh [tier] [seed...]   -- every check at several VERIF_SEED values; prints only what is not OK
cd "$(dirname "$0")/.."
TIER=${1:-quick}; shift
SEEDS=${*:-1 2 3 4 5}
bad=0
for sd in $SEEDS; do
  for i in 01 02 03 04 05 06 07 08 09 10 11 12 13 14 15 16 17 18 19 20; do
    out=$(VERIF_SEED=$sd VERIF_NO_EVIDENCE=1 ./check C$i --tier $TIER 2>&1); rc=$?
    if [ $rc -ne 0 ]; then bad=$((bad+1)); echo "seed=$sd C$i rc=$rc"; echo "$out" | grep -E "VIOLATION|INCONCL|\[C[0-9]+/" | head -3 | cut -c1-400; fi
  done
  echo "seed $sd done"
done
echo "soak finished, $bad not OK"
