#!/bin/bash
# usage: tools/thorough.sh [props...]  -- runs the thorough tier of the given (default: all) checks one after the
# other and prints one line per check (verdict, wall time).  Evidence is not overwritten (VERIF_NO_EVIDENCE=1)
# unless KEEP_EVIDENCE=1.
cd "$(dirname "$0")/.."
props=${@:-C01 C02 C03 C04 C05 C06 C07 C08 C09 C10 C11 C12 C13 C14 C15 C16 C17 C18 C19 C20}
bad=0
for p in $props; do
  t0=$(date +%s)
  if [ "${KEEP_EVIDENCE:-0}" = 1 ]; then out=$(./check $p --tier thorough 2>&1); else out=$(VERIF_NO_EVIDENCE=1 ./check $p --tier thorough 2>&1); fi
  rc=$?
  t1=$(date +%s)
  echo "$p rc=$rc $((t1-t0))s $(echo "$out" | grep -E '^(OK|VIOLATION|INCONCLUSIVE)' | tail -1)"
  if [ $rc -ne 0 ]; then bad=$((bad+1)); echo "$out" | tail -30 | cut -c1-400; fi
done
echo "thorough finished, $bad not OK"
