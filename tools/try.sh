#!/bin/bash
# usage: tools/try.sh C02 [checks] [seed] [extra go test args]  -- quick developer loop, prints the shrunk case
export GOFLAGS=-mod=mod GOPROXY=off GOSUMDB=off GOTOOLCHAIN=local
P=$1; N=${2:-2000}; S=${3:-1}; shift; shift; shift
mkdir -p /tmp/vw; rm -f /tmp/vw/r.json
cd /verif/harness && VERIF_PROP=$P VERIF_KNOWN=$(grep -oP '^known:.*key=\K\S+' /verif/KNOWN_FINDINGS.txt | paste -sd,) VERIF_REPLAY_OUT=/tmp/vw/r.json VERIF_STATS_OUT=/tmp/vw/stats.json go test -count=1 -timeout 600s -run "^Test$P\$" -rapid.checks=$N -rapid.seed=$S -rapid.nofailfile "$@" . 2>&1 | grep -v "rapid\] draw" | tail -15
if [ -f /tmp/vw/r.json ]; then python3 -c "
import json;d=json.load(open('/tmp/vw/r.json'));print('CASE',json.dumps(d['case'],ensure_ascii=False)[:3000]);print('NOTE',d['note'][:3000])"; fi
